(* C12 — a Text is a sequence of Unicode code points.
   Only statements + `exact` of lemmas proved in Rt/Str*.v, each followed by Print Assumptions.
   Vocabulary (Rt/Str.v = model of utf8.c / operators.c / ddptypes.c / the compiler's text loop,
   Rt/StrSpec.v = specification):
     scalarb c        c is a Unicode scalar value;  tchar c = scalar and not U+0000
     utf8_enc, E      standard UTF-8 of a scalar value / of a list of them
     codec_ok enc dec the libc codec (c32rtomb, mbrtoc32) is standard UTF-8 on every scalar value
     repr s cs        the ddpstring s is well formed (cap = byte length + 1, one terminator, valid
                      UTF-8; the empty text is {NULL,0} or the allocated {"\0",1} that C producers of
                      the stdlib return) and holds exactly the code points cs
     rres r e         the result r of a runtime producer matches the specification result e:
                      both a Laufzeitfehler, or r = Ok s, e = Ok cs and repr s cs
     s_index, s_replace, s_slice, ++, list_eqb   the operations on code-point lists
     run / srun       histories of operations on four registers, model / specification *)
From Coq Require Import List ZArith Bool.
Import ListNotations.
From DDP Require Import Rt.Str Rt.StrSpec Rt.StrBase Rt.StrUtf8 Rt.StrOps Rt.StrOps2 Rt.StrOps3 Rt.StrHistory Rt.StrOld Rt.Bounds Rt.StrBounds.
Open Scope Z_scope.

(* ---- encode / decode for EVERY scalar value (range lemmas, no sampling) ---------------------------------- *)
Theorem C12_codec_roundtrip_every_scalar :
  (forall c, scalarb c = true -> glibc_enc c = Some (utf8_enc c)) /\
  (forall c, scalarb c = true -> glibc_dec (utf8_enc c) = Some c).
Proof. exact glibc_codec_ok. Qed.
Print Assumptions C12_codec_roundtrip_every_scalar.

(* the encoding of every text character has one of the four UTF-8 shapes, which is what
   utf8_num_bytes / utf8_indicated_num_bytes classify *)
Theorem C12_num_bytes_every_char :
  forall c rest, tchar c = true -> In 0 rest ->
    utf8_num_bytes (utf8_enc c ++ rest) = Ok (cp_len c) /\ utf8_num_bytes_char c = cp_len c.
Proof.
  exact (fun c rest Hc Hin =>
    conj (eq_trans (num_bytes_shape _ rest (enc_shape c Hc) Hin) (f_equal Ok (enc_len c))) (num_bytes_char_len c Hc)).
Qed.
Print Assumptions C12_num_bytes_every_char.

(* texts and byte strings: decoding is the two-sided inverse of encoding *)
Theorem C12_decode_inverse :
  (forall cs, forallb tchar cs = true -> decode (E cs) = Some cs) /\
  (forall l cs, decode l = Some cs -> l = E cs /\ forallb tchar cs = true).
Proof. exact (conj decode_E decode_sound). Qed.
Print Assumptions C12_decode_inverse.

Theorem C12_repr_is_wf_and_cps : forall s cs, repr s cs <-> wf s /\ cps s = Some cs.
Proof. exact repr_wf_cps. Qed.
Print Assumptions C12_repr_is_wf_and_cps.

(* ---- every operation refines the code-point operation and preserves well-formedness --------------------- *)
Theorem C12_literal : forall cs, forallb tchar cs = true -> rres (string_from_constant (E cs ++ [0])) (Ok cs).
Proof. exact from_constant_repr. Qed.
Print Assumptions C12_literal.

Theorem C12_copy : forall s cs, repr s cs -> deep_copy_string s = Ok s.
Proof. exact deep_copy_repr. Qed.
Print Assumptions C12_copy.

Theorem C12_length : forall s cs, repr s cs -> string_length s = Ok (clen cs).
Proof. exact string_length_repr. Qed.
Print Assumptions C12_length.

(* nth code point for 1 <= i <= length, Laufzeitfehler otherwise *)
Theorem C12_index : forall enc dec, codec_ok enc dec ->
  forall s cs i, repr s cs -> string_index dec s i = s_index cs i.
Proof.
  exact (fun enc dec C => string_index_repr dec (fun c H => proj2 C c (tchar_scalar c H))).
Qed.
Print Assumptions C12_index.

Theorem C12_slice : forall s cs i j, repr s cs -> rres (string_slice s i j) (s_slice cs i j).
Proof. exact string_slice_repr. Qed.
Print Assumptions C12_slice.

Theorem C12_concat : forall s1 s2 cs1 cs2,
  repr s1 cs1 -> repr s2 cs2 -> rres (string_string_verkettet s1 s2) (Ok (cs1 ++ cs2)).
Proof. exact string_string_verkettet_repr. Qed.
Print Assumptions C12_concat.

(* for EVERY ddpchar c: s_char c = [c] for a text character (scalar value other than U+0000), [] otherwise *)
Theorem C12_concat_char : forall enc dec, codec_ok enc dec ->
  forall s cs c, repr s cs ->
    rres (string_char_verkettet enc s c) (Ok (cs ++ s_char c)) /\
    rres (char_string_verkettet enc c s) (Ok (s_char c ++ cs)).
Proof.
  exact (fun enc dec C s cs c H =>
    conj (string_char_verkettet_all enc (proj1 C) s cs c H) (char_string_verkettet_all enc (proj1 C) c s cs H)).
Qed.
Print Assumptions C12_concat_char.

Theorem C12_char_to_text : forall enc dec, codec_ok enc dec ->
  forall c, rres (char_to_string enc c) (Ok (s_char c)).
Proof. exact (fun enc dec C => char_to_string_all enc (proj1 C)). Qed.
Print Assumptions C12_char_to_text.

(* two well-formed texts are equal exactly when their code-point sequences are equal *)
Theorem C12_equal : forall s1 s2 cs1 cs2,
  repr s1 cs1 -> repr s2 cs2 ->
  string_equal false s1 s2 = Ok (list_eqb cs1 cs2) /\ (list_eqb cs1 cs2 = true <-> cs1 = cs2).
Proof.
  exact (fun s1 s2 cs1 cs2 H1 H2 =>
    conj (string_equal_repr false s1 s2 cs1 cs2 H1 H2 (fun E0 => False_ind _ (Bool.diff_false_true E0))) (list_eqb_eq cs1 cs2)).
Qed.
Print Assumptions C12_equal.

(* the empty Text has two representations, {NULL,0} (literal, every runtime operation) and the allocated
   {"\0",1} (C producers of the stdlib: env.c, string_builder.c, filesystem.c, strings.c ...): both are
   well formed with no code points, every theorem of this file covers both (repr admits both), and in
   particular they are equal to each other in both operand orders.  The definition before the fix
   (Rt/StrOld.v: memcmp over str1->cap bytes) read through NULL when the allocated one came first. *)
Theorem C12_two_empty_texts :
  repr owned_empty [] /\ repr empty_string [] /\
  (forall s, repr s [] -> s = empty_string \/ s = owned_empty) /\
  string_equal false owned_empty empty_string = Ok true /\
  string_equal false empty_string owned_empty = Ok true /\
  string_equal_old false owned_empty empty_string = OOB /\
  string_equal_old false empty_string owned_empty = Ok true.
Proof.
  exact (conj repr_owned_empty (conj repr_empty (conj repr_nil
    (conj (proj1 (proj2 (proj2 (proj2 (proj2 old_equal_empty_refuted)))))
    (conj (proj2 (proj2 (proj2 (proj2 (proj2 old_equal_empty_refuted)))))
    (conj (proj1 (proj2 (proj2 old_equal_empty_refuted)))
          (proj1 (proj2 (proj2 (proj2 old_equal_empty_refuted)))))))))).
Qed.
Print Assumptions C12_two_empty_texts.

(* `Für jeden Buchstaben b in t` visits the code points in order *)
Theorem C12_iterate : forall enc dec, codec_ok enc dec ->
  forall s cs, repr s cs -> string_iterate dec s = Ok cs.
Proof. exact (fun enc dec C => string_iterate_repr dec (fun c H => proj2 C c (tchar_scalar c H))). Qed.
Print Assumptions C12_iterate.

Theorem C12_print : forall s cs, repr s cs -> print_text s = Ok (E cs).
Proof. exact print_text_repr. Qed.
Print Assumptions C12_print.

Theorem C12_casts :
  (forall c, scalarb c = true -> int_to_char (char_to_int c) = c) /\
  (forall z, -2^31 <= z < 2^31 -> char_to_int (int_to_char z) = z).
Proof. exact (conj cast_roundtrip_char cast_roundtrip_int). Qed.
Print Assumptions C12_casts.

(* in-place replacement by ANY text character (shorter, equal or longer in UTF-8): the code points
   are replaced, well-formedness is kept, Laufzeitfehler outside 1..length; storing a ddpchar that is
   not a text character is a Laufzeitfehler *)
Theorem C12_replace : forall enc dec, codec_ok enc dec ->
  forall s cs ch i, repr s cs ->
    rres (replace_char_in_string enc s ch i) (if tchar ch then s_replace cs ch i else Err).
Proof. exact (fun enc dec C => replace_char_all enc (proj1 C)). Qed.
Print Assumptions C12_replace.

(* ---- histories ------------------------------------------------------------------------------------------------ *)
(* EVERY history of operations over texts (literals that are UTF-8 encodings of texts) is observed exactly as on code-point lists, and ends in representations
   of the specification's texts — whatever mixture of literal, copy, concatenation, slice and
   replacement by shorter/equal/longer characters produced the values, and for EVERY ddpchar value
   (in_text only asks literals to be UTF-8 encodings of texts) *)
Theorem C12_history_refines : forall enc dec, codec_ok enc dec ->
  forall ops, along (fun _ => in_text) sinit ops = true ->
    fst (run enc dec init_state ops) = fst (srun sinit ops) /\
    fin_rel (snd (run enc dec init_state ops)) (snd (srun sinit ops)).
Proof. exact (fun enc dec C ops => history_refines enc dec C ops init_state sinit init_rel). Qed.
Print Assumptions C12_history_refines.

(* ---- composition with C06 (Rt/Bounds.v): the byte-level operations decide their domain and compute
   their value exactly as the code-point-level text_index / text_replace / text_slice, on every
   well-formed text; the capacity hypotheses of Props/C06.v are consequences of repr.
   of_option: Some v -> Ok v, None -> Laufzeitfehler;  of_slice: SliceOk l -> Ok l, SliceError -> Laufzeitfehler *)
Theorem C12_repr_gives_C06_capacity_hypotheses : forall s cs, repr s cs ->
  (cs <> [] -> Z.of_nat (length cs) + 1 <= cap s) /\ (cs = [] -> cap s = 0 \/ cap s = 1).
Proof. exact repr_cap_bounds. Qed.
Print Assumptions C12_repr_gives_C06_capacity_hypotheses.

Theorem C12_index_matches_bounds : forall enc dec, codec_ok enc dec ->
  forall s cs i, repr s cs -> string_index dec s i = of_option (text_index (cap s) cs i).
Proof. exact index_matches_bounds. Qed.
Print Assumptions C12_index_matches_bounds.

Theorem C12_replace_matches_bounds : forall enc dec, codec_ok enc dec ->
  forall s cs ch i, repr s cs -> tchar ch = true ->
    rres (replace_char_in_string enc s ch i) (of_option (text_replace (cap s) cs i ch)).
Proof. exact replace_matches_bounds. Qed.
Print Assumptions C12_replace_matches_bounds.

Theorem C12_slice_matches_bounds : forall s cs i j,
  repr s cs -> rres (string_slice s i j) (of_slice (text_slice cs i j)).
Proof. exact slice_matches_bounds. Qed.
Print Assumptions C12_slice_matches_bounds.

(* documentation of the repaired defect (/repo 629848a): the replacement as it was BEFORE the fix
   (Rt/StrOld.v, capacity kept) left a string that is not well formed; concatenation then lost the
   appended text, iteration did not terminate and equality read outside the block.  The current
   definition returns the well-formed {"ab", 3} on the same input. *)
Theorem C12_old_replace_shorter_refuted :
  exists s cs ch i s', repr s cs /\ tchar ch = true /\
    replace_char_in_string_old glibc_enc s ch i = Ok s' /\ ~ wf s' /\
    (r <- string_string_verkettet s' (mkstr [88; 0] 2) ;; print_text r) = Ok (E [97; 98]) /\
    string_iterate glibc_dec s' = Stuck /\
    string_equal_old false s' (mkstr [97; 98; 0] 3) = OOB /\
    replace_char_in_string glibc_enc s ch i = Ok (mkstr [97; 98; 0] 3).
Proof. exact old_replace_shorter_refuted. Qed.
Print Assumptions C12_old_replace_shorter_refuted.

(* well-formedness is an invariant of EVERY operation for EVERY ddpchar: after any history every
   register is well formed (or the program stopped with a Laufzeitfehler); never OOB/Undef/Stuck *)
Theorem C12_wf_preserved_all_chars : forall enc dec, codec_ok enc dec ->
  forall ops, along (fun _ => in_text) sinit ops = true ->
    match snd (run enc dec init_state ops) with
    | Ok st => Forall wf st
    | Err => True
    | _ => False
    end.
Proof. exact wf_preserved_all_chars. Qed.
Print Assumptions C12_wf_preserved_all_chars.

(* limitation, not a violation: U+0000 is a Unicode scalar value, but no well-formed Text has it among
   its code points (the byte array is NUL-terminated); the runtime treats it like a value that is
   not a character: converting gives the empty Text, appending appends nothing, storing is a Laufzeitfehler *)
Theorem C12_nul_not_representable :
  scalarb 0 = true /\ (forall s cs, wf s -> cps s = Some cs -> ~ In 0 cs) /\
  char_to_string glibc_enc 0 = Ok empty_string /\
  string_char_verkettet glibc_enc (mkstr [97; 0] 2) 0 = Ok (mkstr [97; 0] 2) /\
  char_string_verkettet glibc_enc 0 (mkstr [97; 0] 2) = Ok (mkstr [97; 0] 2) /\
  replace_char_in_string glibc_enc (mkstr [97; 0] 2) 0 1 = Err.
Proof. exact (conj eq_refl (conj nul_not_representable nul_char_operations)). Qed.
Print Assumptions C12_nul_not_representable.

(* ---- non-vacuity ----------------------------------------------------------------------------------------------- *)
Definition sample_text : list Z := [72; 228; 8364; 128512].          (* "Hä€😀": 1, 2, 3 and 4 bytes *)
Definition sample_string : ddpstring := mkstr (E sample_text ++ [0]) 11.
Example C12_sample_repr : repr sample_string sample_text.
Proof. apply repr_intro; [reflexivity|discriminate|reflexivity|reflexivity]. Qed.
Example C12_codec_nonvacuous : codec_ok glibc_enc glibc_dec /\ scalarb 128512 = true /\ tchar 8364 = true.
Proof. exact (conj glibc_codec_ok (conj eq_refl eq_refl)). Qed.
Example C12_operations_nonvacuous :
  string_index glibc_dec sample_string 4 = Ok 128512 /\ string_index glibc_dec sample_string 5 = Err /\
  s_slice sample_text 2 9 = Ok [228; 8364; 128512] /\ s_slice sample_text 3 2 = Err /\
  replace_char_in_string glibc_enc sample_string 97 3 = Ok (mkstr (E [72; 228; 97; 128512] ++ [0]) 9).
Proof. repeat split; vm_compute; reflexivity. Qed.
Definition sample_history : list op :=
  [OLit 0 (E sample_text); OReplace 0 8364 2; OReplace 0 97 3; OSlice 1 0 2 3; OConcatSC 1 1 0; OConcatCS 1 55296 1; OConcat 2 1 0; OConcatSC 3 2 128512;
   OEmptyOwned 1; OLit 2 []; OEqual 1 2; OConcat 1 1 0; OEqual 0 1; OIndex 3 2; OIter 3; OIndex 3 99].
Example C12_history_nonvacuous :
  along (fun _ => in_text) sinit sample_history = true /\
  fst (srun sinit sample_history) =
    [VNone; VNone; VNone; VNone; VNone; VNone; VNone; VNone; VNone; VNone; VBool true; VNone; VBool true; VInt 97;
     VChars [8364; 97; 72; 8364; 97; 128512; 128512]] /\
  snd (srun sinit sample_history) = Err.
Proof. vm_compute. auto. Qed.
