(* placeholder while the proofs are being written *)
From Coq Require Import List NArith.
From DDP Require Import Lex.ScanModel.
