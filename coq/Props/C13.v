(* C13 — the token stream is a faithful, positioned partition of the source.
   Model: Lex/ScanModel.v (scanner.go on code points), Lex/Utf8.v (gate, decoding, encoding), Lex/ScanRun.v.
   Specification vocabulary (Lex/ScanSpec.v): pos_of (positions by counting), sub, blank, tiles (partition),
   positioned, class_ok (lexical rules), indents (indentation rule).
   Only statements + `exact` of lemmas proved in Lex/*Proofs*.v, each followed by Print Assumptions.
   Status: every theorem is proved at full strength for both modes (normal and alias). The alias-mode
   refutations of an earlier revision (a line feed inside an alias parameter) disappeared with the fix
   a49a8e1 of /repo, which the model mirrors. *)
From Coq Require Import List NArith Bool.
Import ListNotations.
From DDP Require Import Gen.Tokens Lex.Utf8 Lex.Utf8Proofs Lex.ScanModel Lex.ScanSpec Lex.ScanRun
  Lex.ScanProofs Lex.ScanKinds Lex.ScanIndent Lex.ScanMunch Lex.ScanComplete Lex.ScanFacts.
Open Scope N_scope.

(* 1. never out of fuel: every NextToken consumes at least one code point or returns EOF, so
      length+1 rounds of ScanAll (and of every inner loop) suffice — for every source, valid or not *)
Theorem C13_fuel :
  forall (m : mode) (l0 c0 i0 : N) (src : list N), scan_from m l0 c0 i0 src <> None.
Proof. exact scan_fuel. Qed.
Print Assumptions C13_fuel.

(* 2. exactly one EOF token, at the end *)
Theorem C13_one_eof :
  forall m l0 c0 i0 src ts, scan_from m l0 c0 i0 src = Some ts ->
    exists body e, ts = body ++ [e] /\ ty e = tt_EOF /\ Forall (fun t => ty t <> tt_EOF) body.
Proof. exact scan_one_eof. Qed.
Print Assumptions C13_one_eof.

(* 3. partition: the spans are ordered, disjoint, non-empty (but EOF), separated by blanks only, they
      reach the end of the source, and the literal of every non-ILLEGAL token is the source substring *)
Theorem C13_partition :
  forall m l0 c0 i0 src ts, scan_from m l0 c0 i0 src = Some ts -> tiles src 0 ts.
Proof. exact scan_partition. Qed.
Print Assumptions C13_partition.

(* 4. positions: Range.Start / Range.End are the line/column of the span's first code point / of the
      code point behind it, counted independently (pos_of; 1-based when scanning starts at 1:1) *)
Theorem C13_positions :
  forall m l0 c0 i0 src ts, scan_from m l0 c0 i0 src = Some ts -> Forall (positioned l0 c0 src) ts.
Proof. exact scan_positions. Qed.
Print Assumptions C13_positions.

(*    in particular scanner.Scan (normal mode, base 1:1): 1-based lines and columns *)
Theorem C13_positions_normal :
  forall src ts, scan Normal src = Some ts -> Forall (positioned 1 1 src) ts.
Proof. exact (fun src ts H => scan_positions Normal 1 1 0 src ts H). Qed.
Print Assumptions C13_positions_normal.

(* 5. the UTF-8 gate accepts exactly the encodings of code-point lists; it is the only way to be
      refused; behind it the model scans the decoded source, and decoding inverts encoding *)
Theorem C13_utf8_gate :
  forall bs : list N, valid bs = true <-> exists cps, encode cps = bs.
Proof. exact utf8_gate. Qed.
Print Assumptions C13_utf8_gate.

Theorem C13_utf8_roundtrip :
  (forall bs, valid bs = true -> encode (decode bs) = bs) /\
  (forall cps, forallb scalar cps = true -> decode (encode cps) = cps).
Proof. exact (conj valid_encode_decode decode_encode). Qed.
Print Assumptions C13_utf8_roundtrip.

Theorem C13_invalid_refused :
  forall m l0 c0 i0 bs,
    (valid bs = false -> scan_bytes m l0 c0 i0 bs = Refused) /\
    (valid bs = true -> exists ts, scan_bytes m l0 c0 i0 bs = Toks ts /\ scan_from m l0 c0 i0 (decode bs) = Some ts).
Proof. exact (fun m l0 c0 i0 bs => conj (invalid_refused m l0 c0 i0 bs) (valid_scanned m l0 c0 i0 bs)). Qed.
Print Assumptions C13_invalid_refused.

(* 6. kinds: every token is an instance of a lexical rule (class_ok), read per type below *)
Theorem C13_kinds :
  forall m l0 c0 i0 src ts, scan_from m l0 c0 i0 src = Some ts ->
    Forall (fun t => class_ok m (tend t = len src) (ty t) (sub src (tstart t) (tend t))) ts.
Proof. exact scan_kinds. Qed.
Print Assumptions C13_kinds.

Theorem C13_kind_readings :
  forall m (P : Prop) l,
    (class_ok m P tt_INT l -> digits l) /\
    (class_ok m P tt_FLOAT l -> exists a b, l = a ++ 44 :: b /\ digits a /\ digits b) /\
    (class_ok m P tt_IDENTIFIER l -> word l /\ keyword_type l = None) /\
    (class_ok m P tt_STRING l -> quoted_lit 34 l) /\
    (class_ok m P tt_CHAR l -> quoted_lit 39 l) /\
    (class_ok m P tt_COMMENT l -> exists b d, l = 91 :: b /\ depth_after 1 b = Some d /\ (d = 0 \/ P)) /\
    (forall t, ~ In t special_types -> class_ok m P t l -> word l /\ keyword_type l = Some t) /\
    (forall t, word l -> class_ok m P t l ->
       match keyword_type l with Some v => t = v | None => t = tt_IDENTIFIER end).
Proof.
  exact (fun m P l => conj (class_int m P l) (conj (class_float m P l) (conj (class_identifier m P l)
          (conj (class_string m P l) (conj (class_char m P l) (conj (class_comment m P l)
          (conj (fun t => class_keyword m P t l) (fun t => class_word m P t l)))))))).
Qed.
Print Assumptions C13_kind_readings.

Theorem C13_normal_mode_has_no_alias_parameter :
  forall l0 c0 i0 src ts, scan_from Normal l0 c0 i0 src = Some ts -> forall t, In t ts -> ty t <> tt_ALIAS_PARAMETER.
Proof. exact normal_no_alias_parameter. Qed.
Print Assumptions C13_normal_mode_has_no_alias_parameter.

(*    words and numbers are maximal: behind an identifier/keyword there is no alphanumeric code point,
      behind a number no digit *)
Theorem C13_maximal_munch :
  forall m l0 c0 i0 src ts, scan_from m l0 c0 i0 src = Some ts ->
    Forall (fun t => forall c r d,
              sub src (tstart t) (tend t) = c :: r -> nth_error src (N.to_nat (tend t)) = Some d ->
              (isAlpha c = true -> isAlphaNumeric d = false) /\ (isDigit c = true -> isDigit d = false)) ts.
Proof. exact scan_munch. Qed.
Print Assumptions C13_maximal_munch.

(*    every spelling of the regenerated keyword table (incl. the listed ASCII transliterations) scans to its
      keyword; so does its capitalised form unless that is a table entry of its own (mal / Mal) — a finite
      statement about the table, proved by computation over the whole table *)
Theorem C13_keywords_scan :
  forall k v, In (k, v) keyword_table ->
    (exists a e, scan Normal k = Some [a; e] /\ ty a = v /\ lit a = k /\ ty e = tt_EOF) /\
    (exists a e, scan Normal (capitalise k) = Some [a; e] /\ ty a = capitalised_type k v /\ lit a = capitalise k /\ ty e = tt_EOF).
Proof. exact keywords_scan. Qed.
Print Assumptions C13_keywords_scan.

(*    kind COMPLETENESS. first_token m rest k l (ScanSpec) = "l is a prefix of rest, (k, l) is an instance of a
      lexical rule (class_ok) and l is maximal". For every token of the stream, the (type, literal) pairs the rules
      allow at its start are exactly the scanned one: with C13_kinds this is the iff between scanner and rules. *)
Theorem C13_kind_complete :
  forall m l0 c0 i0 src ts, scan_from m l0 c0 i0 src = Some ts ->
    Forall (fun t => forall k l, first_token m (skipn (N.to_nat (tstart t)) src) k l <->
                                (k = ty t /\ l = sub src (tstart t) (tend t))) ts.
Proof. exact scan_kind_iff. Qed.
Print Assumptions C13_kind_complete.

(*    the rules read forwards, shape of the source suffix => first_token (hence, by C13_kind_complete, the scanned token):
      (a) numbers  (b) words: keyword by spelling or lower-casing (Ä/Ö/Ü included), else IDENTIFIER
      (c) text / character literals with the escape rule, comments, unterminated forms to the end of the source
      (d) alias parameters in alias mode  (e) punctuation and SYMBOL *)
Theorem C13_kind_complete_rules :
  forall m tail,
    (forall a b, digits a -> digits b -> hd_sat tail isDigit = false ->
       first_token m (a ++ 44 :: b ++ tail) tt_FLOAT (a ++ 44 :: b)) /\
    (forall l, digits l -> hd_sat tail isDigit = false -> (forall d t', tail = 44 :: d :: t' -> isDigit d = false) ->
       first_token m (l ++ tail) tt_INT l) /\
    (forall l, word l -> hd_sat tail isAlphaNumeric = false ->
       first_token m (l ++ tail) (match keyword_type l with Some v => v | None => tt_IDENTIFIER end) l) /\
    (forall b, qbody 34 b -> first_token m (34 :: b ++ 34 :: tail) tt_STRING (34 :: b ++ [34])) /\
    (forall b, qbody 39 b -> first_token m (39 :: b ++ 39 :: tail) tt_CHAR (39 :: b ++ [39])) /\
    (forall q b, q = 34 \/ q = 39 -> qopen q b -> first_token m (q :: b) tt_ILLEGAL (q :: b)) /\
    (forall b, depth_after 1 b = Some 0 -> first_token m (91 :: b ++ tail) tt_COMMENT (91 :: b)) /\
    (forall b d, depth_after 1 b = Some d -> first_token m (91 :: b) tt_COMMENT (91 :: b)) /\
    (forall b, ~ In 62 b -> first_token Alias (60 :: b ++ 62 :: tail) tt_ALIAS_PARAMETER (60 :: b ++ [62])) /\
    (forall b, ~ In 62 b -> first_token Alias (60 :: b) tt_ALIAS_PARAMETER (60 :: b)) /\
    (first_token m (45 :: tail) tt_NEGATE [45] /\ first_token m (44 :: tail) tt_COMMA [44] /\
     first_token m (58 :: tail) tt_COLON [58] /\ first_token m (40 :: tail) tt_LPAREN [40] /\
     first_token m (41 :: tail) tt_RPAREN [41] /\ first_token m (46 :: 46 :: 46 :: tail) tt_ELIPSIS [46; 46; 46] /\
     ((forall t', tail <> 46 :: 46 :: t') -> first_token m (46 :: tail) tt_DOT [46])) /\
    (forall c, isAlpha c = false -> isDigit c = false -> ~ blank c ->
       ~ In c [45; 46; 44; 58; 40; 41; 34; 39; 91] -> (c = 60 -> m = Normal) -> first_token m (c :: tail) tt_SYMBOL [c]).
Proof.
  exact (fun m tail =>
    conj (fun a b => ft_float m a b tail) (conj (fun l => ft_int m l tail) (conj (fun l => ft_word m l tail)
    (conj (fun b => ft_quoted m 34 tt_STRING b tail (or_introl (conj eq_refl eq_refl)))
    (conj (fun b => ft_quoted m 39 tt_CHAR b tail (or_intror (conj eq_refl eq_refl)))
    (conj (ft_illegal m) (conj (fun b => ft_comment m b tail) (conj (ft_comment_open m)
    (conj (fun b => ft_apar b tail) (conj ft_apar_open (conj (ft_punct m tail) (fun c => ft_symbol m c tail)))))))))))).
Qed.
Print Assumptions C13_kind_complete_rules.

(* 7. indentation rule *)
Theorem C13_indent :
  forall m l0 c0 i0 src ts, scan_from m l0 c0 i0 src = Some ts -> indents src true 0 i0 ts.
Proof. exact scan_indents. Qed.
Print Assumptions C13_indent.

(* the depth computed by skipWhitespace over a gap is the declarative rule *)
Theorem C13_gap_depth_rule :
  forall ws sh d run, Forall blank ws ->
    gapd sh d run ws = if has_lf ws then indent_run 0 (after_last_lf ws)
                       else if sh then d + indent_run run ws else d.
Proof. exact gapd_spec. Qed.
Print Assumptions C13_gap_depth_rule.

(* non-vacuity: a source with keywords, identifier, decimal-comma number, text with escape, nested comment
   and an indented second line; an alias with a base position; the former counterexample; gate samples *)
Example C13_sample_tokens :
  option_map (map (fun t => (length (lit t), tindent t, (sl t, sc t), (el t, ec t)))) (scan Normal sample) =
  Some [(4%nat, 0, (1,1), (1,5)); (1%nat, 0, (1,6), (1,7)); (6%nat, 0, (1,8), (1,14)); (3%nat, 0, (1,15), (1,18));
        (3%nat, 0, (1,19), (1,22)); (3%nat, 0, (1,23), (1,26)); (1%nat, 0, (1,26), (1,27));
        (8%nat, 1, (2,2), (2,10)); (5%nat, 1, (2,11), (2,16)); (7%nat, 1, (2,17), (2,24)); (1%nat, 1, (2,24), (2,25));
        (0%nat, 1, (2,25), (2,25))].
Proof. exact sample_tokens. Qed.
Example C13_sample_alias :
  exists ts, scan_from Alias 3 7 2 sample_alias = Some ts /\
    exists t, In t ts /\ ty t = tt_ALIAS_PARAMETER /\ (sl t, sc t) = (3, 11) /\ tindent t = 2.
Proof. exact sample_alias_ok. Qed.
(* tab, `<`, LF, `>`, x in alias mode: the parameter ends at 2:2, x sits at 2:2-2:3, depth 0 from the parameter on *)
Example C13_sample_lf_in_alias_parameter :
  option_map (map (fun t => (length (lit t), tindent t, (sl t, sc t), (el t, ec t)))) (scan_from Alias 1 1 0 lf_alias) =
  Some [(3%nat, 0, (1,2), (2,2)); (1%nat, 0, (2,2), (2,3)); (0%nat, 0, (2,3), (2,3))].
Proof. exact lf_alias_tokens. Qed.
(* capitalised umlaut keywords: Überlädt / Öffentliche are looked up as überlädt / öffentliche *)
Example C13_sample_umlaut_keywords :
  keyword_type [220;98;101;114;108;228;100;116] = lookup keyword_table [252;98;101;114;108;228;100;116] /\
  lookup keyword_table [252;98;101;114;108;228;100;116] <> None /\
  keyword_type [214;102;102;101;110;116;108;105;99;104;101] = lookup keyword_table [246;102;102;101;110;116;108;105;99;104;101] /\
  lookup keyword_table [246;102;102;101;110;116;108;105;99;104;101] <> None.
Proof. exact umlaut_keywords. Qed.
Example C13_sample_first_token :
  first_token Normal ([49] ++ 44 :: [53] ++ [32; 120]) tt_FLOAT ([49] ++ 44 :: [53]).
Proof. exact first_token_sample. Qed.
Example C13_sample_utf8 :
  valid [195; 164; 226; 130; 172; 240; 159; 152; 128] = true /\ valid [237; 160; 128] = false /\ valid [192; 128] = false.
Proof. exact sample_utf8. Qed.
