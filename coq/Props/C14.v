(* C14 — type equivalence is lawful; aliases are transparent, definitions opaque; initialisation and
   assignment agree and accept exactly equivalent / numeric-for-numeric / anything-but-nothing-for-Variable;
   a definition converts only explicitly and only to and from its own base.
   Only statements + `exact` of lemmas proved in Types/TyProofs.v and Types/AssignProofs.v. *)
From Coq Require Import List NArith Bool.
Import ListNotations.
From DDP Require Import Types.Ty Types.TyProofs Types.Assign Types.AssignProofs.
Open Scope N_scope.

(* ---- Equal (and DeepEqual) are equivalence relations, for all types ------------------------------ *)
Theorem C14_equal_equivalence :
  (forall t, equal t t = true) /\ (forall a b, equal a b = equal b a) /\
  (forall a b c, equal a b = true -> equal b c = true -> equal a c = true).
Proof. exact (conj equal_refl (conj equal_sym equal_trans)). Qed.
Print Assumptions C14_equal_equivalence.

Theorem C14_deep_equal_equivalence :
  (forall t, deep_equal t t = true) /\ (forall a b, deep_equal a b = deep_equal b a) /\
  (forall a b c, deep_equal a b = true -> deep_equal b c = true -> deep_equal a c = true).
Proof. exact (conj deep_equal_refl (conj deep_equal_sym deep_equal_trans)). Qed.
Print Assumptions C14_deep_equal_equivalence.

(* ---- alias transparency: everywhere (inside list types, behind further aliases), any depth ------- *)
Theorem C14_alias_transparent_everywhere :
  forall (c : ctx) (i : N) (t : ty), equal (plug c (Alias i t)) (plug c t) = true.
Proof. exact alias_transparent_everywhere. Qed.
Print Assumptions C14_alias_transparent_everywhere.

Theorem C14_alias_chain_transparent :
  forall (ids : list N) (t : ty), equal (aliases ids t) t = true.
Proof. exact equal_aliases. Qed.
Print Assumptions C14_alias_chain_transparent.

(* an alias answers every equivalence question exactly as its target does *)
Theorem C14_alias_substitutable :
  forall i t x, equal (Alias i t) x = equal t x /\ equal x (Alias i t) = equal x t.
Proof. exact alias_substitutable. Qed.
Print Assumptions C14_alias_substitutable.

(* Equal is a congruence for those contexts *)
Theorem C14_equal_congruence : forall c a b, equal (plug c a) (plug c b) = equal a b.
Proof. exact equal_plug. Qed.
Print Assumptions C14_equal_congruence.

(* Equal is EXACTLY the least list-congruence identifying aliases with their targets, provided ids
   identify objects (the model's reading of pointer identity) *)
Theorem C14_equal_iff_declarative :
  forall a b, wf_types [a; b] = true -> (equal a b = true <-> teq a b).
Proof. exact equal_iff_teq. Qed.
Print Assumptions C14_equal_iff_declarative.
Example C14_equal_iff_declarative_nonvacuous :
  wf_types [ex_haus; ex_zeiger; ex_nummer; ex_db; List (Alias 6 (List ex_haus))] = true.
Proof. exact ex_wf. Qed.

(* ---- definition opacity --------------------------------------------------------------------------- *)
Theorem C14_def_opaque_everywhere :
  forall c i u, wf_types [Def i u] = true -> equal (plug c (Def i u)) (plug c u) = false.
Proof. exact def_opaque_everywhere. Qed.
Print Assumptions C14_def_opaque_everywhere.
Example C14_def_opaque_nonvacuous : wf_types [ex_db] = true /\ equal ex_db (Alias 5 ex_zeiger) = false.
Proof. exact ex_def_opaque_hyp. Qed.

Theorem C14_def_equal_iff_same_id : forall i u j v, equal (Def i u) (Def j v) = (i =? j).
Proof. exact def_equal_iff_same_id. Qed.
Print Assumptions C14_def_equal_iff_same_id.

Theorem C14_def_equal_iff_same_object :
  forall i u j v, wf_types [Def i u; Def j v] = true -> (equal (Def i u) (Def j v) = true <-> Def i u = Def j v).
Proof. exact def_equal_same_object. Qed.
Print Assumptions C14_def_equal_iff_same_object.
Example C14_def_equal_iff_same_object_nonvacuous : wf_types [ex_haus; ex_zeiger] = true /\ equal ex_haus ex_zeiger = false.
Proof. exact ex_same_object_hyp. Qed.

Theorem C14_def_distinct_same_base : forall i j u, i <> j -> equal (Def i u) (Def j u) = false.
Proof. exact def_distinct_same_base. Qed.
Print Assumptions C14_def_distinct_same_base.

(* ---- initialisation and assignment ------------------------------------------------------------------ *)
Theorem C14_init_assign_agree : forall t v, is_generic t = false -> init_ok t v = assign_ok t v.
Proof. exact init_assign_agree. Qed.
Print Assumptions C14_init_assign_agree.
Example C14_init_assign_agree_nonvacuous :
  is_generic ex_nummer = false /\ init_ok ex_nummer (Prim PByte) = true /\ init_ok ex_nummer (Prim PText) = false.
Proof. exact ex_agree_hyp. Qed.

Theorem C14_assign_char :
  forall t v, assign_ok t v = true <->
    equal t v = true \/ (is_numeric t = true /\ is_numeric v = true) \/ (equal t Any = true /\ equal v Void = false).
Proof. exact assign_char. Qed.
Print Assumptions C14_assign_char.

Theorem C14_init_char :
  forall t v, is_generic t = false ->
    (init_ok t v = true <->
     equal t v = true \/ (is_numeric t = true /\ is_numeric v = true) \/ (equal t Any = true /\ equal v Void = false)).
Proof. exact init_char. Qed.
Print Assumptions C14_init_char.

Theorem C14_def_no_implicit_conversion :
  forall i u, wf_types [Def i u] = true -> is_any u = false ->
    assign_ok (Def i u) u = false /\ assign_ok u (Def i u) = false /\
    init_ok (Def i u) u = false /\ init_ok u (Def i u) = is_generic u.
Proof. exact def_no_implicit_conversion. Qed.
Print Assumptions C14_def_no_implicit_conversion.
Example C14_def_no_implicit_conversion_nonvacuous : wf_types [ex_haus] = true /\ is_any ex_zahl = false.
Proof. exact ex_no_implicit_hyp. Qed.

(* ---- explicit conversion of definitions (value context: `e als T`) -------------------------------- *)
Theorem C14_cast_def_rule :
  forall lhs target,
    is_any lhs = false -> is_any target = false -> is_type_def lhs || is_type_def target = true ->
    (cast_ok lhs target = true <->
     (exists b, cast_type_def lhs = Some b /\ equal b target = true) \/
     (exists b, cast_type_def target = Some b /\ equal b lhs = true)).
Proof. exact cast_def_rule. Qed.
Print Assumptions C14_cast_def_rule.
Example C14_cast_def_rule_nonvacuous :
  is_any ex_db = false /\ is_any ex_zeiger = false /\ is_type_def ex_db || is_type_def ex_zeiger = true /\
  cast_ok ex_db ex_zeiger = true /\ cast_ok ex_db ex_zahl = false /\ cast_ok ex_haus ex_zeiger = false.
Proof. exact ex_cast_rule_hyp. Qed.

Theorem C14_cast_def_base_ok : forall i u, cast_ok (Def i u) u = true /\ cast_ok u (Def i u) = true.
Proof. exact cast_def_base_ok. Qed.
Print Assumptions C14_cast_def_base_ok.

Theorem C14_cast_def_to_plain :
  forall i u t, is_type_def t = false -> is_any t = false ->
    cast_ok (Def i u) t = equal t u /\ cast_ok t (Def i u) = equal t u.
Proof. exact cast_def_to_plain. Qed.
Print Assumptions C14_cast_def_to_plain.
Example C14_cast_def_to_plain_nonvacuous : is_type_def (List ex_nummer) = false /\ is_any (List ex_nummer) = false.
Proof. exact ex_cast_plain_hyp. Qed.

Theorem C14_cast_def_distinct :
  forall i j u, wf_types [Def i u; Def j u] = true -> i <> j -> cast_ok (Def i u) (Def j u) = false.
Proof. exact cast_def_distinct. Qed.
Print Assumptions C14_cast_def_distinct.
Example C14_cast_def_distinct_nonvacuous : wf_types [Def 1 ex_zahl; Def 2 ex_zahl] = true /\ 1 <> 2.
Proof. exact ex_cast_distinct_hyp. Qed.

(* ---- reference context (`x als T` as assignment target / Referenz argument): the SAME rule ---------- *)
Theorem C14_cast_assignable_def_rule :
  forall lhs target,
    wf_types [lhs; target] = true -> is_type_def lhs || is_type_def target = true ->
    (cast_assignable_ok lhs target = true <->
     equal lhs target = true \/
     (exists b, cast_type_def lhs = Some b /\ equal b target = true) \/
     (exists b, cast_type_def target = Some b /\ equal b lhs = true)).
Proof. exact cast_assignable_def_rule. Qed.
Print Assumptions C14_cast_assignable_def_rule.
Example C14_cast_assignable_def_rule_nonvacuous :
  wf_types [ex_db; ex_zeiger] = true /\ is_type_def ex_db || is_type_def ex_zeiger = true /\
  cast_assignable_ok ex_db ex_zeiger = true /\ cast_assignable_ok ex_db ex_haus = false /\ cast_assignable_ok ex_haus ex_zeiger = false.
Proof. exact ex_cast_assignable_hyp. Qed.

(* the reference cast and the value cast agree wherever a definition is converted *)
Theorem C14_cast_assignable_matches_cast :
  forall lhs target,
    wf_types [lhs; target] = true -> is_any lhs = false -> is_any target = false ->
    is_type_def lhs || is_type_def target = true ->
    cast_assignable_ok lhs target = equal lhs target || cast_ok lhs target.
Proof. exact cast_assignable_matches_cast. Qed.
Print Assumptions C14_cast_assignable_matches_cast.

Theorem C14_cast_assignable_def_distinct :
  forall i j u, wf_types [Def i u; Def j u] = true -> i <> j -> cast_assignable_ok (Def i u) (Def j u) = false.
Proof. exact cast_assignable_def_distinct. Qed.
Print Assumptions C14_cast_assignable_def_distinct.

Theorem C14_cast_assignable_base_ok :
  forall i u, cast_assignable_ok (Def i u) u = true /\ cast_assignable_ok u (Def i u) = true.
Proof. exact cast_assignable_base_ok. Qed.
Print Assumptions C14_cast_assignable_base_ok.

(* it only ever relates types with the same representation *)
Theorem C14_cast_assignable_representation :
  forall a b, wf_types [a; b] = true -> cast_assignable_ok a b = true -> deep_equal a b = true.
Proof. exact cast_assignable_representation. Qed.
Print Assumptions C14_cast_assignable_representation.

(* ---- ADDITIONAL positions (not part of the property's "initialisation and assignment" sentence): call
   arguments and returned values.  Which of {equivalent, numeric-for-numeric, anything-but-nothing for
   Variable} each accepts. -------------------------------------------------------------------------------- *)
(* value parameter: exactly the equivalent types *)
Theorem C14_arg_char :
  forall param arg assignable text_index, arg_ok false assignable text_index param arg = equal param arg.
Proof. exact arg_char. Qed.
Print Assumptions C14_arg_char.

(* Referenz parameter: an assignable argument of an EQUAL type (no numeric conversion, no Variable rule) *)
Theorem C14_ref_arg_needs_equal :
  forall param arg assignable text_index,
    arg_ok true assignable text_index param arg = true -> assignable = true /\ equal param arg = true.
Proof. exact ref_arg_needs_equal. Qed.
Print Assumptions C14_ref_arg_needs_equal.
Example C14_ref_arg_needs_equal_nonvacuous :
  arg_ok true true false ex_nummer (Prim PZahl) = true /\ arg_ok true true false (Prim PKommazahl) (Prim PZahl) = false.
Proof. vm_compute. split; reflexivity. Qed.

Theorem C14_ref_arg_char :
  forall param arg assignable text_index,
    arg_ok true assignable text_index param arg =
    assignable && negb (equal param (Prim PBuchstabe) && text_index) && equal param arg.
Proof. exact ref_arg_char. Qed.
Print Assumptions C14_ref_arg_char.

(* returned value: equivalent, or anything but nothing for Variable; no numeric-for-numeric *)
Theorem C14_return_char :
  forall ret v, return_ok true ret v = true <-> equal v Void = false /\ (equal ret v = true \/ equal ret Any = true).
Proof. exact return_char. Qed.
Print Assumptions C14_return_char.

Theorem C14_return_bare_char : forall ret, return_ok false ret Void = equal ret Void.
Proof. exact return_bare_char. Qed.
Print Assumptions C14_return_bare_char.

Theorem C14_return_implies_assign : forall ret v, return_ok true ret v = true -> assign_ok ret v = true.
Proof. exact return_implies_assign. Qed.
Print Assumptions C14_return_implies_assign.
Example C14_positions_differ :
  return_ok true (Prim PZahl) (Prim PKommazahl) = false /\ assign_ok (Prim PZahl) (Prim PKommazahl) = true /\ return_ok true Any (Prim PZahl) = true.
Proof. exact return_no_numeric_conversion. Qed.

(* ---- the structurally recursive model functions satisfy the recursion equations of the Go code ---- *)
Theorem C14_true_underlying_go_eq : forall t, true_underlying t = go_true_underlying_body t.
Proof. exact true_underlying_go_eq. Qed.
Print Assumptions C14_true_underlying_go_eq.

Theorem C14_true_list_underlying_go_eq :
  forall t, true_list_underlying t = match true_underlying t with List e => List (true_list_underlying e) | x => x end.
Proof. exact true_list_underlying_go_eq. Qed.
Print Assumptions C14_true_list_underlying_go_eq.

Theorem C14_list_true_underlying_go_eq :
  forall t, list_true_underlying t = match true_underlying t with List e => list_true_underlying e | x => x end.
Proof. exact list_true_underlying_go_eq. Qed.
Print Assumptions C14_list_true_underlying_go_eq.
