(* C15 — a generic call behaves like its monomorphic specialisation.
   PROVED here: the type-level mechanism (model coq/Types/Generic.v of src/ddptypes/generic_types.go):
   what a successful unification returns, that a conflicting second binding rejects the call, that
   unification never panics, and that instantiations of a generic Kombination are canonical.
   NOT proved (covered by the program-level differential leg of checks/c15.py only): that the body
   re-parsed under the bindings behaves like the textually specialised function.
   Only statements + `exact` of lemmas proved in Types/GenericProofs.v. *)
From Coq Require Import List NArith Bool.
Import ListNotations.
From DDP Require Import Types.Ty Types.TyProofs Types.Generic Types.GenericProofs Types.GenericFun Types.GenericFunProofs.
Open Scope N_scope.

(* FRAGMENT: parameter types built from list-of, type parameters and closed non-Kombination types
   (`T`, `T Liste`, `Zahlen Liste`, ...), no generic Kombination in play (insts st = []).
   A successful UnifyGenericType returns exactly the parameter type with its type parameters replaced
   by their bindings; existing bindings are never changed (first binding wins); no cache is touched. *)
Theorem C15_unify_sound :
  forall arity st arg param σ r σ' st',
    insts st = [] -> simple_param param = true ->
    unify arity st arg param σ = (UOk r, σ', st') ->
    r = subst σ' param /\ env_extends σ σ' /\ st' = st.
Proof. exact unify_sound. Qed.
Print Assumptions C15_unify_sound.
Example C15_unify_sound_nonvacuous :
  insts (gstate0 100) = [] /\ simple_param (List (TParam 1)) = true /\
  fst (fst (unify (fun _ => 0%nat) (gstate0 100) (List (List (Prim PZahl))) (List (TParam 1)) [])) = UOk (List (List (Prim PZahl))).
Proof. vm_compute. repeat split; reflexivity. Qed.

(* SAME FRAGMENT, whole call (what the call sites do: Equal(UnifyGenericType(arg, param, σ), arg) for
   each parameter in order, sharing σ): in an accepted call every argument is equivalent to its
   parameter type after textual replacement of the type parameters by the final bindings. *)
Theorem C15_check_args_sound :
  forall arity args params st σ σ' st',
    insts st = [] -> forallb simple_param params = true ->
    check_args arity st args params σ = (true, σ', st') ->
    env_extends σ σ' /\ Forall2 (fun p a => equal (subst σ' p) a = true) params args.
Proof. exact check_args_sound. Qed.
Print Assumptions C15_check_args_sound.

(* SAME FRAGMENT: binding one type parameter to two different argument types makes the call
   ill-typed — in an accepted call two parameters of the same type received equivalent arguments. *)
Theorem C15_unify_conflict :
  forall arity args params st σ σ' st',
    insts st = [] -> forallb simple_param params = true ->
    check_args arity st args params σ = (true, σ', st') ->
    forall i j p a b, nth_error params i = Some p -> nth_error params j = Some p ->
                      nth_error args i = Some a -> nth_error args j = Some b -> equal a b = true.
Proof. exact unify_conflict. Qed.
Print Assumptions C15_unify_conflict.
Example C15_unify_conflict_nonvacuous :
  fst (fst (check_args (fun _ => 0%nat) (gstate0 100) [Prim PZahl; Prim PText] [TParam 1; TParam 1] [])) = false /\
  fst (fst (check_args (fun _ => 0%nat) (gstate0 100) [List (Prim PZahl); Alias 7 (Prim PZahl)] [List (TParam 1); TParam 1] [])) = true.
Proof. exact unify_conflict_example. Qed.

(* ALL parameter and argument types, ALL cache states in which every recorded instantiation has the
   arity of its generic Kombination (preserved by every operation): UnifyGenericType neither panics
   nor exhausts the fuel of the modelled loops. (False before /repo 36809d8.) *)
Theorem C15_unify_total :
  forall arity st arg param σ,
    inv_len arity st ->
    fst (fst (unify arity st arg param σ)) <> UPanic /\ fst (fst (unify arity st arg param σ)) <> UFuel /\
    inv_len arity (snd (unify arity st arg param σ)).
Proof. exact unify_total. Qed.
Print Assumptions C15_unify_total.
Example C15_unify_total_nonvacuous :
  inv_len (fun _ => 2%nat) (gstate0 100) /\
  (let ar := fun g : N => if g =? 1 then 2%nat else 1%nat in
   let st1 := snd (get_inst ar (gstate0 100) 1 [TParam 7; TParam 8]) in
   let st2 := snd (get_inst ar st1 2 [Prim PZahl]) in
   fst (fst (unify ar st2 (Struct 101) (Struct 100) [])) = UNil).
Proof. split; [apply inv_len_gstate0| exact unify_other_generic_is_nil]. Qed.

(* ALL histories of instantiation requests (GetInstantiatedStructType) from any consistent cache: two
   requests return the same Kombination object iff they name the same generic Kombination with
   pointwise equivalent type arguments ("equal type arguments denote one and the same type, different
   type arguments different types"). *)
Theorem C15_inst_canonical :
  forall arity st reqs1 g1 a1 s1 st1 reqs2 g2 a2 s2 st2,
    GenericProofs.inv st ->
    get_inst arity (state_after arity st reqs1) g1 a1 = (Some s1, st1) ->
    get_inst arity (state_after arity st1 reqs2) g2 a2 = (Some s2, st2) ->
    (s1 = s2 <-> g1 = g2 /\ args_equal a1 a2 = true).
Proof. exact inst_canonical. Qed.
Print Assumptions C15_inst_canonical.
Example C15_inst_canonical_nonvacuous : forall k, GenericProofs.inv (gstate0 k).
Proof. exact inv_gstate0. Qed.

(* ---- the per-module cache of generic FUNCTION instantiations (model Types/GenericFun.v of
   parser.InstantiateGenericFunction) ------------------------------------------------------------------------ *)

(* ALL functions (extern or not), ALL histories of requests and body failures from the empty cache: the same
   instantiation is only ever returned for the same generic function, the same key module (the requesting
   module; the declaring module for extern functions) and pointwise-equal parameter types. *)
Theorem C15_fun_inst_sound :
  forall is_extern decl_mod evs1 f1 g1 p1 ps1 r1 s1 evs2 f2 g2 p2 ps2 r2 s2 i,
    fstep is_extern decl_mod (frun is_extern decl_mod fstate0 evs1) (EReq f1 g1 p1 ps1) = (r1, s1) -> result_id r1 = Some i ->
    fstep is_extern decl_mod (frun is_extern decl_mod s1 evs2) (EReq f2 g2 p2 ps2) = (r2, s2) -> result_id r2 = Some i ->
    f1 = f2 /\ key_mod is_extern decl_mod f1 g1 p1 = key_mod is_extern decl_mod f2 g2 p2 /\ params_equal ps1 ps2 = true.
Proof. exact fun_inst_sound. Qed.
Print Assumptions C15_fun_inst_sound.

(* NON-EXTERN functions, all histories: two requests return the same instantiation IFF same generic function,
   same requesting module and pointwise-equal parameter types — provided the body of the first instantiation
   did not fail in between (a failed instantiation is removed, see below). *)
Theorem C15_fun_inst_canonical :
  forall is_extern decl_mod evs1 f1 g1 p1 ps1 r1 s1 i1 evs2 f2 g2 p2 ps2 r2 s2 i2,
    is_extern f1 = false ->
    fstep is_extern decl_mod (frun is_extern decl_mod fstate0 evs1) (EReq f1 g1 p1 ps1) = (r1, s1) -> result_id r1 = Some i1 ->
    no_fail i1 evs2 = true ->
    fstep is_extern decl_mod (frun is_extern decl_mod s1 evs2) (EReq f2 g2 p2 ps2) = (r2, s2) -> result_id r2 = Some i2 ->
    (i1 = i2 <-> f1 = f2 /\ key_mod is_extern decl_mod f1 g1 p1 = key_mod is_extern decl_mod f2 g2 p2 /\ params_equal ps1 ps2 = true).
Proof. exact fun_inst_canonical. Qed.
Print Assumptions C15_fun_inst_canonical.
Example C15_fun_inst_canonical_nonvacuous :
  let ie := fun _ : N => false in let dm := fun _ : N => 1 in
  let s1 := snd (fstep ie dm fstate0 (EReq 5 None 2 [(Prim PZahl, false)])) in
  fst (fstep ie dm fstate0 (EReq 5 None 2 [(Prim PZahl, false)])) = New 0 /\
  fst (fstep ie dm s1 (EReq 5 None 2 [(Alias 9 (Prim PZahl), false)])) = Hit 0 /\      (* equal through an alias: same instantiation *)
  fst (fstep ie dm s1 (EReq 5 None 3 [(Prim PZahl, false)])) = New 1 /\                (* another requesting module: another one *)
  fst (fstep ie dm s1 (EReq 5 None 2 [(Prim PZahl, true)])) = New 1.                   (* Referenz differs: another one *)
Proof. vm_compute. repeat split; reflexivity. Qed.

(* a failed instantiation leaves no entry *)
Theorem C15_fun_failed_leaves_no_entry :
  forall is_extern decl_mod st id e, In e (fins (snd (fstep is_extern decl_mod st (EFail id)))) -> fe_id e <> id.
Proof. exact failed_leaves_no_entry. Qed.
Print Assumptions C15_fun_failed_leaves_no_entry.

(* EXTERN generic functions requested from a module other than the declaring one: the "if" direction FAILS on the
   pinned tree — `Instantiations[genericModule] = append(Instantiations[p.module], &decl)` resets the slice of the
   declaring module, so the same instantiation is made again (observable only as duplicated declarations). *)
Theorem C15_fun_inst_extern_refuted :
  exists is_extern decl_mod f pmod a b,
    is_extern f = true /\ pmod <> decl_mod f /\
    let ev x := EReq f None pmod [(x, false)] in
    let s1 := snd (fstep is_extern decl_mod fstate0 (ev a)) in
    let s2 := snd (fstep is_extern decl_mod s1 (ev b)) in
    fst (fstep is_extern decl_mod fstate0 (ev a)) = New 0 /\ fst (fstep is_extern decl_mod s2 (ev a)) = New 2.
Proof. exact fun_inst_extern_refuted. Qed.
Print Assumptions C15_fun_inst_extern_refuted.
