(* C16 — compilation is repeatable: nothing observable depends on map iteration order or sort instability.
   Only statements + `exact` of lemmas proved in Det/*Proofs.v, each followed by Print Assumptions.
   A Go map is the list of its entries in the order one `range` delivers them; another iteration delivers a
   Permutation. Names:  site_invariant_<s> (full), site_<s>_partial (what holds although the full statement
   is false), site_<s>_refuted (two concrete orders with different observables — defects of the pinned tree),
   site_<s>_fixed (the repaired site is invariant). Non-vacuity examples: Det/NonVacuity.v. *)
From Coq Require Import List Bool Arith NArith Permutation Sorted.
Import ListNotations.
From DDP Require Import Det.Sorting Det.SortingProofs Det.Sites Det.SitesProofs Det.C16Model Det.C16ModelProofs
  Det.ExprTree Det.ExprTreeProofs Det.AliasSort Det.AliasSortProofs Det.SiteIndex Gen.Sites Det.SiteIndexProofs Det.NonVacuity.

(* ---------------------------------------------------------------- sorting *)
(* Go's small-slice insertion sort returns a sorted permutation for every strict weak order *)
Theorem C16_insertion_sort_sorts :
  forall (A : Type) (less : A -> A -> bool), asym less -> negtrans less ->
    forall l, Permutation l (isort less l) /\ sorted less (isort less l).
Proof. exact (fun A less Ha Ht l => conj (isort_perm A less l) (isort_sorted A less Ha Ht l)). Qed.
Print Assumptions C16_insertion_sort_sorts.

(* for a comparator that is total on the elements, two sorted arrangements of the same elements coincide *)
Theorem C16_sorted_unique :
  forall (A : Type) (less : A -> A -> bool) (l l' : list A),
    Permutation l l' -> total_on less l -> sorted less l -> sorted less l' -> l = l'.
Proof. exact sorted_unique. Qed.
Print Assumptions C16_sorted_unique.

(* hence sort.Slice (insertion sort up to 12 elements, any sorting routine beyond) is order-insensitive *)
Theorem C16_go_sort_invariant :
  forall (A : Type) (less : A -> A -> bool), asym less -> negtrans less ->
    forall big, sorts less big -> forall l l', total_on less l -> Permutation l l' ->
      go_sort less big l = go_sort less big l'.
Proof. exact go_sort_invariant. Qed.
Print Assumptions C16_go_sort_invariant.

(* the lexicographic (line, column) comparator is a strict total order on positions *)
Theorem C16_lex_strict_total_order :
  (forall p, lex_lt p p = false) /\
  (forall p q r, lex_lt p q = true -> lex_lt q r = true -> lex_lt p r = true) /\
  (forall p q, p <> q -> lex_lt p q = true \/ lex_lt q p = true).
Proof. exact lex_strict_total_order. Qed.
Print Assumptions C16_lex_strict_total_order.

Theorem C16_lex_meets_sort_contract : asym lex_lt /\ negtrans lex_lt /\ (forall p q, lex_lt p q = false -> lex_lt q p = false -> p = q).
Proof. exact (conj lex_asym (conj lex_negtrans lex_total)). Qed.
Print Assumptions C16_lex_meets_sort_contract.

(* the comparator of IterateImportedDecls (`line< || col<`) is not a strict weak order *)
Theorem C16_comparator_not_strict_weak :
  (exists p q, code_lt p q = true /\ code_lt q p = true) /\ ~ asym code_lt.
Proof. exact (conj code_lt_not_asym code_lt_not_strict_weak). Qed.
Print Assumptions C16_comparator_not_strict_weak.

(* parser.sortAliases: the comparator is a strict weak order whose ties are the equal (tokens, generics, references)
   triples; the result is a sorted permutation of the trie-search result and, up to 12 candidates (Go's stable insertion
   sort), tied candidates keep their trie-search order: which of several maximal candidates is tried first is a function
   of the (map-free) search result *)
Theorem C16_site_sort_aliases :
  asym alias_less /\ negtrans alias_less /\
  (forall a b, alias_less a b = false -> alias_less b a = false -> same_rank a b = true) /\
  forall big l, (forall l0, Permutation l0 (big l0)) ->
    Permutation l (sort_aliases big l) /\
    (length l <= 12 -> sorted alias_less (sort_aliases big l) /\
       forall c, filter (same_rank c) (sort_aliases big l) = filter (same_rank c) l).
Proof. exact (conj alias_asym (conj alias_negtrans (conj alias_incomparable sort_aliases_spec))). Qed.
Print Assumptions C16_site_sort_aliases.

(* ---------------------------------------------------------------- imported declarations *)
Theorem C16_site_imported_decls_refuted :
  (exists l l', Permutation l l' /\ forall big, imported_decls big l <> imported_decls big l') /\
  (exists existing l l', Permutation l l' /\ length l <= 12 /\
     forall big, import_site big existing l <> import_site big existing l').
Proof. exact (conj imported_decls_refuted import_site_refuted). Qed.
Print Assumptions C16_site_imported_decls_refuted.

Theorem C16_site_imported_decls_partial :
  forall big, (forall l, Permutation l (big l)) ->
    forall existing l l', Permutation l l' ->
      snd (import_site big existing l) = snd (import_site big existing l') /\
      (forall d, fst (import_site big existing l') = Some d -> In d (import_diags existing l)) /\
      Permutation (imported_symbols big l) (imported_symbols big l').
Proof. exact import_site_partial. Qed.
Print Assumptions C16_site_imported_decls_partial.

Theorem C16_site_imported_decls_same_column :
  forall big existing l l',
    length l <= 12 ->
    (forall a b, In a l -> In b l -> col (d_pos a) = col (d_pos b)) ->
    (forall a b, In a l -> In b l -> d_pos a = d_pos b -> a = b) ->
    Permutation l l' -> import_site big existing l = import_site big existing l'.
Proof. exact import_site_same_column. Qed.
Print Assumptions C16_site_imported_decls_same_column.

Theorem C16_site_imported_decls_fixed :
  forall big, sorts decl_lex_lt big ->
    forall existing l l',
      (forall a b, In a l -> In b l -> d_pos a = d_pos b -> a = b) ->
      Permutation l l' ->
      imported_decls_fixed big l = imported_decls_fixed big l' /\
      import_site_fixed big existing l = import_site_fixed big existing l'.
Proof. exact import_site_fixed_invariant. Qed.
Print Assumptions C16_site_imported_decls_fixed.

(* ---------------------------------------------------------------- argument maps (calls and struct literals) *)
Theorem C16_site_check_call_args_refuted :
  exists m m', Permutation m m' /\ NoDup (map a_name m) /\ report (check_call_args m) <> report (check_call_args m').
Proof. exact check_call_args_refuted. Qed.
Print Assumptions C16_site_check_call_args_refuted.

Theorem C16_site_resolve_call_args_refuted :
  exists m m', Permutation m m' /\ NoDup (map a_name m) /\ report (resolve_call_args m) <> report (resolve_call_args m').
Proof. exact resolve_call_args_refuted. Qed.
Print Assumptions C16_site_resolve_call_args_refuted.

Theorem C16_site_struct_args_refuted :
  (exists m m', Permutation m m' /\ NoDup (map a_name m) /\ report (check_struct_args m) <> report (check_struct_args m')) /\
  (exists m m', Permutation m m' /\ NoDup (map a_name m) /\ report (resolve_struct_args m) <> report (resolve_struct_args m')).
Proof. exact (conj check_call_args_refuted resolve_call_args_refuted). Qed.
Print Assumptions C16_site_struct_args_refuted.

Theorem C16_call_stmt_partial :
  forall mr mr' mt mt', Permutation mr mr' -> Permutation mt mt' ->
    snd (call_stmt mr mt) = snd (call_stmt mr' mt') /\
    (forall d, fst (call_stmt mr' mt') = Some d -> In d (resolve_call_args mr ++ check_call_args mt)) /\
    ((forall a b, In a mr -> In b mr -> a_rdiags a <> [] -> a_rdiags b <> [] -> a = b) ->
     (forall a b, In a mt -> In b mt -> a_tdiags a <> [] -> a_tdiags b <> [] -> a = b) ->
     call_stmt mr mt = call_stmt mr' mt').
Proof. exact call_stmt_partial. Qed.
Print Assumptions C16_call_stmt_partial.

Theorem C16_site_call_args_fixed :
  forall params mr mr' mt mt',
    NoDup (map a_name mr) -> NoDup (map a_name mt) -> Permutation mr mr' -> Permutation mt mt' ->
    call_stmt_fixed params mr mt = call_stmt_fixed params mr' mt'.
Proof. exact call_stmt_fixed_invariant. Qed.
Print Assumptions C16_site_call_args_fixed.

(* whole statements with nested calls: every node whose children live in a map is walked in some order, the
   resolver pass and the typechecker pass independently *)
Theorem C16_stmt_report_refuted :
  exists e e1 e2, reorder e e1 /\ reorder e e2 /\ stmt_report2 e1 e1 <> stmt_report2 e2 e2.
Proof. exact stmt_report_refuted. Qed.
Print Assumptions C16_stmt_report_refuted.

Theorem C16_stmt_report_partial :
  forall e er et, reorder e er -> reorder e et ->
    snd (stmt_report2 er et) = snd (stmt_report e) /\
    (forall d, fst (stmt_report2 er et) = Some d -> In d (rdiags e ++ tdiags e)).
Proof. exact stmt_report_partial. Qed.
Print Assumptions C16_stmt_report_partial.

Theorem C16_stmt_report_fixed :
  forall e er et, all_ordered e = true -> reorder e er -> reorder e et -> stmt_report2 er et = stmt_report e.
Proof. exact stmt_report_fixed. Qed.
Print Assumptions C16_stmt_report_fixed.

(* ---------------------------------------------------------------- generic struct alias validation *)
Theorem C16_site_unify_report_refuted :
  exists m m', Permutation m m' /\ NoDup (map fst m) /\ unify_report m <> unify_report m'.
Proof. exact unify_report_refuted. Qed.
Print Assumptions C16_site_unify_report_refuted.

Theorem C16_site_unify_report_partial :
  forall m m', Permutation m m' ->
    snd (unify_report m) = snd (unify_report m') /\
    (forall k, fst (unify_report m') = Some k -> In (k, false) m).
Proof. exact unify_report_partial. Qed.
Print Assumptions C16_site_unify_report_partial.

Theorem C16_site_unify_report_fixed :
  forall m m', NoDup (map fst m) -> Permutation m m' -> unify_report_fixed m = unify_report_fixed m'.
Proof. exact unify_report_fixed_invariant. Qed.
Print Assumptions C16_site_unify_report_fixed.

(* ---------------------------------------------------------------- code generator: frees, dispose, module link *)
Theorem C16_site_invariant_scope_frees :
  forall vars vars' h, Permutation vars vars' ->
    run_frees (scope_frees vars) h = run_frees (scope_frees vars') h /\
    Permutation (scope_frees vars) (scope_frees vars').
Proof. exact scope_frees_invariant. Qed.
Print Assumptions C16_site_invariant_scope_frees.

Theorem C16_site_invariant_return_frees :
  forall scopes scopes' h, Forall2 (@Permutation var) scopes scopes' ->
    run_frees (return_frees scopes) h = run_frees (return_frees scopes') h.
Proof. exact return_frees_invariant. Qed.
Print Assumptions C16_site_invariant_return_frees.

Theorem C16_site_invariant_dispose :
  forall mods mods' h, Permutation mods mods' ->
    run_frees (dispose_frees mods) h = run_frees (dispose_frees mods') h.
Proof. exact dispose_invariant. Qed.
Print Assumptions C16_site_invariant_dispose.

Theorem C16_site_invariant_ll_link :
  forall main mods mods', Permutation mods mods' ->
    fst (ll_link main mods) = fst (ll_link main mods') /\
    forall s, memN s (snd (ll_link main mods)) = memN s (snd (ll_link main mods')).
Proof. exact ll_link_invariant. Qed.
Print Assumptions C16_site_invariant_ll_link.

Theorem C16_site_ll_parse_partial :
  forall mods mods', Permutation mods mods' ->
    snd (ll_parse mods) = snd (ll_parse mods') /\
    (length (filter (fun m => negb (snd m)) mods) <= 1 -> ll_parse mods = ll_parse mods').
Proof. exact ll_parse_partial. Qed.
Print Assumptions C16_site_ll_parse_partial.

(* ---------------------------------------------------------------- gcc command line *)
Theorem C16_site_link_cmdline_refuted :
  exists deps deps', Permutation deps deps' /\
    link_cmdline deps (group_libs deps) (group_libs deps) <> link_cmdline deps' (group_libs deps') (group_libs deps').
Proof. exact link_cmdline_refuted. Qed.
Print Assumptions C16_site_link_cmdline_refuted.

Theorem C16_site_link_cmdline_partial :
  forall deps deps' e1 e2 e1' e2',
    Permutation deps deps' ->
    Permutation e1 (group_libs deps) -> Permutation e2 (group_libs deps) ->
    Permutation e1' (group_libs deps') -> Permutation e2' (group_libs deps') ->
    Permutation (link_cmdline deps e1 e2) (link_cmdline deps' e1' e2').
Proof. exact link_cmdline_partial. Qed.
Print Assumptions C16_site_link_cmdline_partial.

(* ---------------------------------------------------------------- prediction sets and the inventory *)
Theorem C16_prediction_is_all_orders :
  (forall existing l o, In o (predict_import existing l) <-> exists l', Permutation l l' /\ o = import_site no_big existing l') /\
  (forall m o, In o (predict_call m) <-> exists mr mt, Permutation m mr /\ Permutation m mt /\ o = call_stmt mr mt) /\
  (forall m o, In o (predict_unify m) <-> exists m', Permutation m m' /\ o = unify_report m').
Proof. exact (conj predict_import_spec (conj predict_call_spec predict_unify_spec)). Qed.
Print Assumptions C16_prediction_is_all_orders.

Theorem C16_fixed_prediction_is_singleton :
  (forall params m o o', NoDup (map a_name m) ->
     In o (predict_call_fixed params m) -> In o' (predict_call_fixed params m) -> o = o') /\
  (forall existing l o o', length l <= 12 ->
     (forall a b, In a l -> In b l -> d_pos a = d_pos b -> a = b) ->
     In o (predict_import_fixed existing l) -> In o' (predict_import_fixed existing l) -> o = o').
Proof. exact (conj predict_call_fixed_singleton predict_import_fixed_singleton). Qed.
Print Assumptions C16_fixed_prediction_is_singleton.

(* every order-dependent construct found in /repo by the translator is classified, and a "modelled" one
   names a model of Det/Sites.v (the list is regenerated on every run) *)
Theorem C16_every_site_classified : forall s, In s sites -> site_ok s = true.
Proof. exact every_site_classified. Qed.
Print Assumptions C16_every_site_classified.
