(* C17 — Duden list, text, number and sorting functions meet their specification.
   One refinement theorem per covered function: the Gallina transcription of the DDP body / C primitive (coq/Lib/*Fns.v)
   equals the Coq list-library expression of its doc comment on the documented domain (_spec).  Every theorem is a full statement
   (no bounded ones are left); loops are handled by invariants in coq/Lib/*Proofs.v, fuel exhaustion is excluded there.
   args_unchanged: value parameters cannot change in a functional model (a function cannot modify its argument);
   the harness checks it on the real code by printing every argument after the call.
   The statements below are the full statements of the lemmas of coq/Lib/*Proofs.v (as printed by Check; regenerate
   with checks/c17_mkprops.py); every theorem with hypotheses is followed by a non-vacuity Example that applies it
   to concrete arguments with all hypotheses discharged. *)
From Coq Require Import List ZArith Bool Lia Permutation Sorted.
From DDP Require Import Lib.Base Lib.BaseProofs Lib.ListFns Lib.ListProofs Lib.NumFns Lib.NumProofs Lib.SortFns Lib.SortProofs Lib.TextFns Lib.TextProofs Lib.TextSearchProofs Lib.ExtraFns Lib.ExtraProofs.
Import ListNotations.
Open Scope Z_scope.

Ltac nv := cbn; first [lia | discriminate | reflexivity | (unfold len; cbn; lia) | (intros H; discriminate H) | (left; discriminate) | (right; discriminate)].
Ltac ov := repeat (apply Forall_cons; [cbn; auto 10|]); apply Forall_nil.

Theorem C17_leere_spec : forall (A : Type) (l : list A), Leere_Liste l = [].
Proof. exact (@leere_spec). Qed.
Print Assumptions C17_leere_spec.

Theorem C17_hinzufuegen_spec : forall (A : Type) (l : list A) (x : A), Hinzufuegen_Liste l x = l ++ [x].
Proof. exact (@hinzufuegen_spec). Qed.
Print Assumptions C17_hinzufuegen_spec.

Theorem C17_hinzufuegen_liste_spec : forall (A : Type) (l o : list A), Hinzufuegen_Liste_Liste l o = l ++ o.
Proof. exact (@hinzufuegen_liste_spec). Qed.
Print Assumptions C17_hinzufuegen_liste_spec.

Theorem C17_voranstellen_spec : forall (A : Type) (l : list A) (x : A), Voranstellen_Liste l x = x :: l.
Proof. exact (@voranstellen_spec). Qed.
Print Assumptions C17_voranstellen_spec.

Theorem C17_voranstellen_liste_spec : forall (A : Type) (l o : list A), Voranstellen_Liste_Liste l o = o ++ l.
Proof. exact (@voranstellen_liste_spec). Qed.
Print Assumptions C17_voranstellen_liste_spec.

Theorem C17_einfuegen_spec : forall (A : Type) (l : list A) (i : Z) (x : A), 1 <= i <= len l + 1 -> Einfuegen_Liste l i x = Ok (firstn (Z.to_nat (i - 1)) l ++ x :: skipn (Z.to_nat (i - 1)) l).
Proof. exact (@einfuegen_spec). Qed.
Print Assumptions C17_einfuegen_spec.
Example C17_einfuegen_spec_nonvacuous := C17_einfuegen_spec Z [1;2] 2 9 ltac:(nv).

Theorem C17_einfuegen_err : forall (A : Type) (l : list A) (i : Z) (x : A), i < 1 \/ len l + 1 < i -> Einfuegen_Liste l i x = Err.
Proof. exact (@einfuegen_err). Qed.
Print Assumptions C17_einfuegen_err.
Example C17_einfuegen_err_nonvacuous := C17_einfuegen_err Z [1;2] 0 9 ltac:(nv).

Theorem C17_einfuegen_bereich_spec : forall (A : Type) (l : list A) (i : Z) (r : list A), 1 <= i <= len l + 1 -> Einfuegen_Bereich_Liste l i r = Ok (firstn (Z.to_nat (i - 1)) l ++ r ++ skipn (Z.to_nat (i - 1)) l).
Proof. exact (@einfuegen_bereich_spec). Qed.
Print Assumptions C17_einfuegen_bereich_spec.
Example C17_einfuegen_bereich_spec_nonvacuous := C17_einfuegen_bereich_spec Z [1;2] 2 [7] ltac:(nv).

Theorem C17_einfuegen_bereich_err : forall (A : Type) (l : list A) (i : Z) (r : list A), i < 1 \/ len l + 1 < i -> Einfuegen_Bereich_Liste l i r = Err.
Proof. exact (@einfuegen_bereich_err). Qed.
Print Assumptions C17_einfuegen_bereich_err.
Example C17_einfuegen_bereich_err_nonvacuous := C17_einfuegen_bereich_err Z [1;2] 5 [7] ltac:(nv).

Theorem C17_loesche_element_spec : forall (A : Type) (l : list A) (i : Z), 1 <= i <= len l -> Loesche_Element l i = Ok (firstn (Z.to_nat (i - 1)) l ++ skipn (Z.to_nat i) l).
Proof. exact (@loesche_element_spec). Qed.
Print Assumptions C17_loesche_element_spec.
Example C17_loesche_element_spec_nonvacuous := C17_loesche_element_spec Z [1;2] 2 ltac:(nv).

Theorem C17_loesche_element_err : forall (A : Type) (l : list A) (i : Z), i < 1 \/ len l < i -> Loesche_Element l i = Err.
Proof. exact (@loesche_element_err). Qed.
Print Assumptions C17_loesche_element_err.
Example C17_loesche_element_err_nonvacuous := C17_loesche_element_err Z [1;2] 0 ltac:(nv).

Theorem C17_loesche_bereich_spec : forall (A : Type) (l : list A) (s e : Z), 1 <= s -> s <= e -> e <= len l -> Loesche_Bereich l s e = Ok (firstn (Z.to_nat (s - 1)) l ++ skipn (Z.to_nat e) l).
Proof. exact (@loesche_bereich_spec). Qed.
Print Assumptions C17_loesche_bereich_spec.
Example C17_loesche_bereich_spec_nonvacuous := C17_loesche_bereich_spec Z [1;2;3] 2 3 ltac:(nv) ltac:(nv) ltac:(nv).

Theorem C17_loesche_bereich_err : forall (A : Type) (l : list A) (s e : Z), ~ (1 <= s /\ s <= e <= len l) -> Loesche_Bereich l s e = Err.
Proof. exact (@loesche_bereich_err). Qed.
Print Assumptions C17_loesche_bereich_err.
Example C17_loesche_bereich_err_nonvacuous := C17_loesche_bereich_err Z [1;2;3] 2 5 ltac:(nv).

Theorem C17_fuellen_spec : forall (A : Type) (l : list A) (x : A), Fuellen_Liste l x = Ok (repeat x (length l)).
Proof. exact (@fuellen_spec). Qed.
Print Assumptions C17_fuellen_spec.

Theorem C17_index_von_spec : forall (A : Type) (eqb : A -> A -> bool) (l : list A) (x : A), exists r : Z, Index_Von_Element_Ref eqb l x = Ok r /\ (r = -1 /\ has eqb l x = false \/ (exists (s1 : list A) (e : A) (s2 : list A), l = s1 ++ e :: s2 /\ r = len s1 + 1 /\ eqb e x = true /\ has eqb s1 x = false)).
Proof. exact (@index_von_spec). Qed.
Print Assumptions C17_index_von_spec.

Theorem C17_index_von_value_spec : forall (A : Type) (eqb : A -> A -> bool) (l : list A) (x : A), Index_Von_Element eqb l x = Index_Von_Element_Ref eqb l x.
Proof. exact (@index_von_value_spec). Qed.
Print Assumptions C17_index_von_value_spec.

Theorem C17_enthaelt_spec : forall (A : Type) (eqb : A -> A -> bool) (l : list A) (x : A), Enthaelt_Wert_Ref eqb l x = has eqb l x.
Proof. exact (@enthaelt_spec). Qed.
Print Assumptions C17_enthaelt_spec.

Theorem C17_enthaelt_In : forall (A : Type) (eqb : A -> A -> bool) (l : list A) (x : A), (forall a b : A, eqb a b = true <-> a = b) -> Enthaelt_Wert eqb l x = true <-> In x l.
Proof. exact (@enthaelt_In). Qed.
Print Assumptions C17_enthaelt_In.
Example C17_enthaelt_In_nonvacuous := C17_enthaelt_In Z Z.eqb [1;2] 2 Z.eqb_eq.

Theorem C17_ist_leer_spec : forall (A : Type) (l : list A), Ist_Leer_Liste l = true <-> l = [].
Proof. exact (@ist_leer_spec). Qed.
Print Assumptions C17_ist_leer_spec.

Theorem C17_erste_n_spec : forall (A : Type) (l : list A) (n : Z), 1 <= n <= len l -> Erste_N_Elemente_Liste l n = Ok (firstn (Z.to_nat n) l).
Proof. exact (@erste_n_spec). Qed.
Print Assumptions C17_erste_n_spec.
Example C17_erste_n_spec_nonvacuous := C17_erste_n_spec Z [1;2;3] 2 ltac:(nv).

Theorem C17_erste_n_is_operator : forall (A : Type) (l : list A) (n : Z), Erste_N_Elemente_Liste_Ref l n = slice_to l n.
Proof. exact (@erste_n_is_operator). Qed.
Print Assumptions C17_erste_n_is_operator.

Theorem C17_letzten_n_spec : forall (A : Type) (l : list A) (n : Z), 1 <= n <= len l -> Letzten_N_Elemente_Liste l n = Ok (skipn (Z.to_nat (len l - n)) l).
Proof. exact (@letzten_n_spec). Qed.
Print Assumptions C17_letzten_n_spec.
Example C17_letzten_n_spec_nonvacuous := C17_letzten_n_spec Z [1;2;3] 2 ltac:(nv).

Theorem C17_spiegeln_spec : forall (A : Type) (junk : A) (l : list A), Liste_Spiegeln_Ref junk l = Ok (rev l).
Proof. exact (@spiegeln_spec). Qed.
Print Assumptions C17_spiegeln_spec.

Theorem C17_spiegeln_value_spec : forall (A : Type) (junk : A) (l : list A), Liste_Spiegeln junk l = Ok (rev l).
Proof. exact (@spiegeln_value_spec). Qed.
Print Assumptions C17_spiegeln_value_spec.

Theorem C17_summe_spec : forall l : list Z, Summe_Liste l = wrap64 (zsum l).
Proof. exact (@summe_spec). Qed.
Print Assumptions C17_summe_spec.

Theorem C17_summe_exact : forall l : list Z, in_i64 (zsum l) -> Summe_Liste l = zsum l.
Proof. exact (@summe_exact). Qed.
Print Assumptions C17_summe_exact.
Example C17_summe_exact_nonvacuous := C17_summe_exact [1;2] ltac:(unfold in_i64, two63; cbn; lia).

Theorem C17_produkt_spec : forall l : list Z, l <> [] -> Produkt_Liste l = wrap64 (ListProofs.zprod l).
Proof. exact (@produkt_spec). Qed.
Print Assumptions C17_produkt_spec.
Example C17_produkt_spec_nonvacuous := C17_produkt_spec [2;3] ltac:(nv).

Theorem C17_produkt_leer : Produkt_Liste [] = 0.
Proof. exact (@produkt_leer). Qed.
Print Assumptions C17_produkt_leer.

Theorem C17_elementweise_summe_spec : forall l1 l2 : list Z, length l1 = length l2 -> Elementweise_Summe l1 l2 = Ok (zip_with Z.add l1 l2).
Proof. exact (@elementweise_summe_spec). Qed.
Print Assumptions C17_elementweise_summe_spec.
Example C17_elementweise_summe_spec_nonvacuous := C17_elementweise_summe_spec [1] [2] ltac:(nv).

Theorem C17_elementweise_differenz_spec : forall l1 l2 : list Z, length l1 = length l2 -> Elementweise_Differenz l1 l2 = Ok (zip_with Z.sub l1 l2).
Proof. exact (@elementweise_differenz_spec). Qed.
Print Assumptions C17_elementweise_differenz_spec.
Example C17_elementweise_differenz_spec_nonvacuous := C17_elementweise_differenz_spec [1] [2] ltac:(nv).

Theorem C17_elementweise_produkt_spec : forall l1 l2 : list Z, length l1 = length l2 -> Elementweise_Produkt l1 l2 = Ok (zip_with Z.mul l1 l2).
Proof. exact (@elementweise_produkt_spec). Qed.
Print Assumptions C17_elementweise_produkt_spec.
Example C17_elementweise_produkt_spec_nonvacuous := C17_elementweise_produkt_spec [1] [2] ltac:(nv).

Theorem C17_aufsteigende_spec : forall start ende : Z, start <= ende + 1 -> Aufsteigende_Zahlen start ende = Ok (zrange_up start (Z.to_nat (ende - start + 1))).
Proof. exact (@aufsteigende_spec). Qed.
Print Assumptions C17_aufsteigende_spec.
Example C17_aufsteigende_spec_nonvacuous := C17_aufsteigende_spec 1 3 ltac:(nv).

Theorem C17_absteigende_spec : forall start ende : Z, ende <= start + 1 -> Absteigende_Zahlen start ende = Ok (zrange_down start (Z.to_nat (start - ende + 1))).
Proof. exact (@absteigende_spec). Qed.
Print Assumptions C17_absteigende_spec.
Example C17_absteigende_spec_nonvacuous := C17_absteigende_spec 3 1 ltac:(nv).

Theorem C17_verketten_spec : forall l : list (list Z), Verketten_Text_Liste l = concat l.
Proof. exact (@verketten_spec). Qed.
Print Assumptions C17_verketten_spec.

Theorem C17_aneinandergehaengt_spec : forall l : list Z, Aneinandergehaengt_Buchstabe l = l.
Proof. exact (@aneinandergehaengt_spec). Qed.
Print Assumptions C17_aneinandergehaengt_spec.

Theorem C17_elw_verketten_spec : forall l1 l2 : list (list Z), length l1 = length l2 -> Elementweise_Verketten_Text l1 l2 = Ok (zip_app l1 l2).
Proof. exact (@elw_verketten_spec). Qed.
Print Assumptions C17_elw_verketten_spec.
Example C17_elw_verketten_spec_nonvacuous := C17_elw_verketten_spec [[1]] [[2]] ltac:(nv).

Theorem C17_tausche_spec : forall a b : Z, Tausche a b = (b, a).
Proof. exact (@tausche_spec). Qed.
Print Assumptions C17_tausche_spec.

Theorem C17_quicksort_ref_spec : forall l : list Z, exists l' : list Z, Quicksort_Ref l = Ok l' /\ Sorted Z.le l' /\ Permutation l' l.
Proof. exact (@quicksort_ref_spec). Qed.
Print Assumptions C17_quicksort_ref_spec.

Theorem C17_quicksort_spec : forall l : list Z, exists l' : list Z, Quicksort l = Ok l' /\ Sorted Z.le l' /\ Permutation l' l.
Proof. exact (@quicksort_spec). Qed.
Print Assumptions C17_quicksort_spec.

Theorem C17_max_spec : forall a b : Z, Max a b = Z.max a b.
Proof. exact (@max_spec). Qed.
Print Assumptions C17_max_spec.

Theorem C17_max3_spec : forall a b c : Z, Max3 a b c = Z.max a (Z.max b c).
Proof. exact (@max3_spec). Qed.
Print Assumptions C17_max3_spec.

Theorem C17_min_spec : forall a b : Z, Min a b = Z.min a b.
Proof. exact (@min_spec). Qed.
Print Assumptions C17_min_spec.

Theorem C17_min3_spec : forall a b c : Z, Min3 a b c = Z.min a (Z.min b c).
Proof. exact (@min3_spec). Qed.
Print Assumptions C17_min3_spec.

Theorem C17_clamp_spec : forall w mx mn : Z, mn <= mx -> Clamp w mx mn = Z.max mn (Z.min w mx).
Proof. exact (@clamp_spec). Qed.
Print Assumptions C17_clamp_spec.
Example C17_clamp_spec_nonvacuous := C17_clamp_spec 5 3 1 ltac:(nv).

Theorem C17_sign_spec : forall w : Z, Sign w = Z.sgn w.
Proof. exact (@sign_spec). Qed.
Print Assumptions C17_sign_spec.

Theorem C17_ggt_spec : forall a b : Z, Groesster_Gemeinsamer_Teiler a b = Ok (Z.gcd a b).
Proof. exact (@ggt_spec). Qed.
Print Assumptions C17_ggt_spec.

Theorem C17_kgv_spec : forall a b : Z, a <> 0 \/ b <> 0 -> in_i64 (a * b) -> Kleinster_Gemeinsamer_Teiler a b = Ok (Z.lcm a b).
Proof. exact (@kgv_spec). Qed.
Print Assumptions C17_kgv_spec.
Example C17_kgv_spec_nonvacuous := C17_kgv_spec 4 (-6) ltac:(nv) ltac:(unfold in_i64, two63; cbn; lia).

Theorem C17_ist_teilbar_spec : forall a b : Z, b <> 0 -> exists r : bool, Ist_Teilbar a b = Ok r /\ (r = true <-> (b | a)).
Proof. exact (@ist_teilbar_spec). Qed.
Print Assumptions C17_ist_teilbar_spec.
Example C17_ist_teilbar_spec_nonvacuous := C17_ist_teilbar_spec 4 2 ltac:(nv).

Theorem C17_ist_teilbar_null : forall a : Z, Ist_Teilbar a 0 = Err.
Proof. exact (@ist_teilbar_null). Qed.
Print Assumptions C17_ist_teilbar_null.

Theorem C17_gerade_spec : forall x : Z, Gerade_Zahl x = true <-> (2 | x).
Proof. exact (@gerade_spec). Qed.
Print Assumptions C17_gerade_spec.

Theorem C17_fakultaet_spec : forall x : Z, 0 <= x <= 20 -> Fakultaet x = Ok (zfact (Z.to_nat x)).
Proof. exact (@fakultaet_spec). Qed.
Print Assumptions C17_fakultaet_spec.
Example C17_fakultaet_spec_nonvacuous := C17_fakultaet_spec 5 ltac:(nv).

Theorem C17_teiler_spec : forall z : Z, 1 <= z -> forall d : Z, In d (Teilerzerlegung z) <-> 1 <= d <= z /\ (d | z).
Proof. exact (@teiler_spec). Qed.
Print Assumptions C17_teiler_spec.
Example C17_teiler_spec_nonvacuous := C17_teiler_spec 6 ltac:(nv).

Theorem C17_teiler_sorted_desc : forall z : Z, Teilerzerlegung z = filter (fun d : Z => Z.rem z d =? 0) (map (fun k : nat => z - Z.of_nat k) (seq 0 (Z.to_nat z))).
Proof. exact (@teiler_sorted_desc). Qed.
Print Assumptions C17_teiler_sorted_desc.

Theorem C17_primfaktorzerlegung_spec : forall z : Z, 1 <= z -> exists l : list Z, Primfaktorzerlegung z = Ok l /\ zprod l = z /\ Forall ist_prim l.
Proof. exact (@primfaktorzerlegung_spec). Qed.
Print Assumptions C17_primfaktorzerlegung_spec.
Example C17_primfaktorzerlegung_spec_nonvacuous := C17_primfaktorzerlegung_spec 12 ltac:(nv).

Theorem C17_trunc_spec : forall n d : Z, Trunc n d = n ÷ d * d.
Proof. exact (@trunc_spec). Qed.
Print Assumptions C17_trunc_spec.

Theorem C17_floor_spec : forall n d : Z, 0 < d -> Floor n d = n / d * d.
Proof. exact (@floor_spec). Qed.
Print Assumptions C17_floor_spec.
Example C17_floor_spec_nonvacuous := C17_floor_spec (-9) 4 ltac:(nv).

Theorem C17_floor_integers : forall n d : Z, 0 < d -> (d | n) -> Floor n d = n.
Proof. exact (@floor_integers). Qed.
Print Assumptions C17_floor_integers.
Example C17_floor_integers_nonvacuous := C17_floor_integers (-8) 4 ltac:(nv) ltac:(exists (-2); lia).

Theorem C17_ceil_spec : forall n d : Z, 0 < d -> Ceil n d = - (- n / d) * d.
Proof. exact (@ceil_spec). Qed.
Print Assumptions C17_ceil_spec.
Example C17_ceil_spec_nonvacuous := C17_ceil_spec (-9) 4 ltac:(nv).

Theorem C17_ceil_integers : forall n d : Z, 0 < d -> (d | n) -> Ceil n d = n.
Proof. exact (@ceil_integers). Qed.
Print Assumptions C17_ceil_integers.
Example C17_ceil_integers_nonvacuous := C17_ceil_integers (-8) 4 ltac:(nv) ltac:(exists (-2); lia).

Theorem C17_hoechste_spec : forall l : list Z, l <> [] -> Forall in_i64 l -> In (Hoechste_ListeZ l) l /\ (forall x : Z, In x l -> x <= Hoechste_ListeZ l).
Proof. exact (@hoechste_spec). Qed.
Print Assumptions C17_hoechste_spec.
Example C17_hoechste_spec_nonvacuous := C17_hoechste_spec [1;2] ltac:(nv) ltac:(repeat constructor; unfold in_i64, two63; lia).

Theorem C17_kleinste_spec : forall l : list Z, l <> [] -> Forall in_i64 l -> In (Kleinste_ListeZ l) l /\ (forall x : Z, In x l -> Kleinste_ListeZ l <= x).
Proof. exact (@kleinste_spec). Qed.
Print Assumptions C17_kleinste_spec.
Example C17_kleinste_spec_nonvacuous := C17_kleinste_spec [1;2] ltac:(nv) ltac:(repeat constructor; unfold in_i64, two63; lia).

Theorem C17_mindestens_spec : forall (x : Z) (l : list Z), Mindestens_Liste x l = (count (fun z : Z => z >=? x) l, len l).
Proof. exact (@mindestens_spec). Qed.
Print Assumptions C17_mindestens_spec.

Theorem C17_hoechstens_spec : forall (x : Z) (l : list Z), Hoechstens_Liste x l = (count (fun z : Z => z <=? x) l, len l).
Proof. exact (@hoechstens_spec). Qed.
Print Assumptions C17_hoechstens_spec.

Theorem C17_zwischen_spec : forall (x y : Z) (l : list Z), Zwischen_Liste x y l = (count (fun z : Z => (z >=? x) && (z <=? y)) l, len l).
Proof. exact (@zwischen_spec). Qed.
Print Assumptions C17_zwischen_spec.

Theorem C17_absolute_haeufigkeit_spec : forall (l : list Z) (x : Z), Absolute_Haeufigkeit l x = Z.of_nat (count_occ Z.eq_dec l x).
Proof. exact (@absolute_haeufigkeit_spec). Qed.
Print Assumptions C17_absolute_haeufigkeit_spec.

Theorem C17_erster_buchstabe_spec : forall (c : Z) (r : list Z), Erster_Buchstabe (c :: r) = Ok c.
Proof. exact (@erster_buchstabe_spec). Qed.
Print Assumptions C17_erster_buchstabe_spec.

Theorem C17_letzter_buchstabe_spec : forall (r : list Z) (c : Z), Letzter_Buchstabe (r ++ [c]) = Ok c.
Proof. exact (@letzter_buchstabe_spec). Qed.
Print Assumptions C17_letzter_buchstabe_spec.

Theorem C17_nter_buchstabe_spec : forall (n : Z) (t : list Z), 1 <= n <= len t -> Nter_Buchstabe n t = Ok (nth (Z.to_nat (n - 1)) t 0).
Proof. exact (@nter_buchstabe_spec). Qed.
Print Assumptions C17_nter_buchstabe_spec.
Example C17_nter_buchstabe_spec_nonvacuous := C17_nter_buchstabe_spec 1 [97] ltac:(nv).

Theorem C17_entferne_vorne_spec : forall (t : text) (n : Z), Entferne_Anzahl_Vorne t n = Ok (skipn (Z.to_nat n) t).
Proof. exact (@entferne_vorne_spec). Qed.
Print Assumptions C17_entferne_vorne_spec.

Theorem C17_entferne_hinten_spec : forall (t : text) (n : Z), Entferne_Anzahl_Hinten t n = Ok (firstn (length t - Z.to_nat n) t).
Proof. exact (@entferne_hinten_spec). Qed.
Print Assumptions C17_entferne_hinten_spec.

Theorem C17_trim_anfang_spec : forall (t : text) (z : Z), Trim_Anfang t z = Ok (drop_z z t).
Proof. exact (@trim_anfang_spec). Qed.
Print Assumptions C17_trim_anfang_spec.

Theorem C17_trim_ende_spec : forall (t : text) (z : Z), Trim_Ende t z = Ok (rev (drop_z z (rev t))).
Proof. exact (@trim_ende_spec). Qed.
Print Assumptions C17_trim_ende_spec.

Theorem C17_trim_spec : forall (t : text) (z : Z), Trim t z = Ok (strip_ref z t).
Proof. exact (@trim_spec). Qed.
Print Assumptions C17_trim_spec.

Theorem C17_text_enthaelt_buchstabe_In : forall (t : text) (z : Z), Text_Enthaelt_Buchstabe t z = true <-> In z t.
Proof. exact (@text_enthaelt_buchstabe_In). Qed.
Print Assumptions C17_text_enthaelt_buchstabe_In.

Theorem C17_text_anzahl_buchstabe_spec : forall (t : text) (z : Z), Text_Anzahl_Buchstabe t z = Z.of_nat (count_occ Z.eq_dec t z).
Proof. exact (@text_anzahl_buchstabe_spec). Qed.
Print Assumptions C17_text_anzahl_buchstabe_spec.

Theorem C17_text_enthaelt_text_spec : forall (t : text) (s : list Z), s <> [] -> Text_Enthaelt_Text t s = Ok (existsb (occ_b t s) (positions t s)).
Proof. exact (@text_enthaelt_text_spec). Qed.
Print Assumptions C17_text_enthaelt_text_spec.
Example C17_text_enthaelt_text_spec_nonvacuous := C17_text_enthaelt_text_spec [97;98] [98] ltac:(nv).

Theorem C17_occurs_iff : forall t s : text, existsb (occ_b t s) (positions t s) = true <-> (exists pre suf : list Z, t = pre ++ s ++ suf).
Proof. exact (@occurs_iff). Qed.
Print Assumptions C17_occurs_iff.

Theorem C17_text_anzahl_text_spec : forall (t : text) (s : list Z), s <> [] -> Text_Anzahl_Text t s = Ok (len (filter (occ_b t s) (positions t s))).
Proof. exact (@text_anzahl_text_spec). Qed.
Print Assumptions C17_text_anzahl_text_spec.
Example C17_text_anzahl_text_spec_nonvacuous := C17_text_anzahl_text_spec [97;98] [98] ltac:(nv).

Theorem C17_nicht_ueberlappend_spec : forall (t : text) (s : list Z), s <> [] -> Text_Anzahl_Text_Nicht_Ueberlappend t s = Ok (nonoverlap_ref (length t + 1) s t).
Proof. exact (@nicht_ueberlappend_spec). Qed.
Print Assumptions C17_nicht_ueberlappend_spec.
Example C17_nicht_ueberlappend_spec_nonvacuous := C17_nicht_ueberlappend_spec [97;98] [98] ltac:(nv).

Theorem C17_beginnt_mit_buchstabe_spec : forall (t : text) (b : Z), Beginnt_Mit_Buchstabe t b = Ok match t with | [] => false | c :: _ => c =? b end.
Proof. exact (@beginnt_mit_buchstabe_spec). Qed.
Print Assumptions C17_beginnt_mit_buchstabe_spec.

Theorem C17_endet_mit_buchstabe_spec : forall (t : text) (b : Z), Endet_Mit_Buchstabe t b = Ok match rev t with | [] => false | c :: _ => c =? b end.
Proof. exact (@endet_mit_buchstabe_spec). Qed.
Print Assumptions C17_endet_mit_buchstabe_spec.

Theorem C17_beginnt_mit_text_spec : forall (t : text) (s : list Z), s <> [] -> Beginnt_Mit_Text t s = Ok (text_eqb (firstn (length s) t) s).
Proof. exact (@beginnt_mit_text_spec). Qed.
Print Assumptions C17_beginnt_mit_text_spec.
Example C17_beginnt_mit_text_spec_nonvacuous := C17_beginnt_mit_text_spec [97;98] [97] ltac:(nv).

Theorem C17_prefix_iff : forall t s : list Z, text_eqb (firstn (length s) t) s = true <-> (exists suf : list Z, t = s ++ suf).
Proof. exact (@prefix_iff). Qed.
Print Assumptions C17_prefix_iff.

Theorem C17_endet_mit_text_spec : forall (t : text) (s : list Z), s <> [] -> Endet_Mit_Text t s = Ok (text_eqb (skipn (length t - length s) t) s).
Proof. exact (@endet_mit_text_spec). Qed.
Print Assumptions C17_endet_mit_text_spec.
Example C17_endet_mit_text_spec_nonvacuous := C17_endet_mit_text_spec [97;98] [98] ltac:(nv).

Theorem C17_suffix_iff : forall t s : list Z, text_eqb (skipn (length t - length s) t) s = true <-> (exists pre : list Z, t = pre ++ s).
Proof. exact (@suffix_iff). Qed.
Print Assumptions C17_suffix_iff.

Theorem C17_text_an_text_spec : forall t e : text, Text_An_Text_Fuegen t e = t ++ e.
Proof. exact (@text_an_text_spec). Qed.
Print Assumptions C17_text_an_text_spec.

Theorem C17_buchstabe_an_text_spec : forall (t : text) (e : Z), Buchstabe_An_Text_Fuegen t e = t ++ [e].
Proof. exact (@buchstabe_an_text_spec). Qed.
Print Assumptions C17_buchstabe_an_text_spec.

Theorem C17_text_vor_text_spec : forall t e : text, Text_Vor_Text_Stellen t e = e ++ t.
Proof. exact (@text_vor_text_spec). Qed.
Print Assumptions C17_text_vor_text_spec.

Theorem C17_buchstabe_vor_text_spec : forall (t : text) (e : Z), Buchstabe_Vor_Text_Stellen t e = e :: t.
Proof. exact (@buchstabe_vor_text_spec). Qed.
Print Assumptions C17_buchstabe_vor_text_spec.

Theorem C17_text_leeren_spec : forall t : text, Text_Leeren t = [].
Proof. exact (@text_leeren_spec). Qed.
Print Assumptions C17_text_leeren_spec.

Theorem C17_text_einfuegen_spec : forall (t : text) (i : Z) (e : text), Text_In_Text_Einfuegen t i e = Ok (firstn (Z.to_nat (clampZ i 1 (len t + 1) - 1)) t ++ e ++ skipn (Z.to_nat (clampZ i 1 (len t + 1) - 1)) t).
Proof. exact (@text_einfuegen_spec). Qed.
Print Assumptions C17_text_einfuegen_spec.

Theorem C17_buchstabe_einfuegen_spec : forall (t : text) (i e : Z), Buchstabe_In_Text_Einfuegen t i e = Ok (firstn (Z.to_nat (clampZ i 1 (len t + 1) - 1)) t ++ e :: skipn (Z.to_nat (clampZ i 1 (len t + 1) - 1)) t).
Proof. exact (@buchstabe_einfuegen_spec). Qed.
Print Assumptions C17_buchstabe_einfuegen_spec.

Theorem C17_loesche_text_spec : forall (t : list Z) (i : Z), 1 <= i <= len t -> Loesche_Text t i = Ok (firstn (Z.to_nat (i - 1)) t ++ skipn (Z.to_nat i) t).
Proof. exact (@loesche_text_spec). Qed.
Print Assumptions C17_loesche_text_spec.
Example C17_loesche_text_spec_nonvacuous := C17_loesche_text_spec [97;98] 1 ltac:(nv).

Theorem C17_loesche_text_bereich_spec : forall (t : list Z) (s e : Z), 1 <= s -> s <= e -> e <= len t -> Loesche_Text_Bereich t s e = Ok (firstn (Z.to_nat (s - 1)) t ++ skipn (Z.to_nat e) t).
Proof. exact (@loesche_text_bereich_spec). Qed.
Print Assumptions C17_loesche_text_bereich_spec.
Example C17_loesche_text_bereich_spec_nonvacuous := C17_loesche_text_bereich_spec [97;98;99] 2 3 ltac:(nv) ltac:(nv) ltac:(nv).

Theorem C17_fuelle_text_spec : forall (t : text) (x : Z), Fuelle_Text t x = Ok (repeat x (length t)).
Proof. exact (@fuelle_text_spec). Qed.
Print Assumptions C17_fuelle_text_spec.

Theorem C17_buchstaben_liste_spec : forall t : text, Buchstaben_TextRef_BuchstabenListe t = Ok t.
Proof. exact (@buchstaben_liste_spec). Qed.
Print Assumptions C17_buchstaben_liste_spec.

Theorem C17_buchstaben_textliste_spec : forall t : text, Buchstaben_TextRef_TextListe t = Ok (map (fun b : Z => [b]) t).
Proof. exact (@buchstaben_textliste_spec). Qed.
Print Assumptions C17_buchstaben_textliste_spec.

Theorem C17_text_index_von_buchstabe_spec : forall (t : text) (z : Z), Text_Index_Von_Buchstabe_Ref t z = -1 /\ ~ In z t \/ (exists pre suf : list Z, t = pre ++ z :: suf /\ ~ In z pre /\ Text_Index_Von_Buchstabe_Ref t z = len pre + 1).
Proof. exact (@text_index_von_buchstabe_spec). Qed.
Print Assumptions C17_text_index_von_buchstabe_spec.

Theorem C17_text_index_von_text_spec : forall (t : text) (s : list Z), s <> [] -> Text_Index_Von_Text t s = Ok (ref_index t s).
Proof. exact (@text_index_von_text_spec). Qed.
Print Assumptions C17_text_index_von_text_spec.
Example C17_text_index_von_text_spec_nonvacuous := C17_text_index_von_text_spec [99;99;99;97] [97;98] ltac:(nv).

Theorem C17_text_index_von_text_leer : forall s : text, Text_Index_Von_Text [] s = Ok (-1).
Proof. exact (@text_index_von_text_leer). Qed.
Print Assumptions C17_text_index_von_text_leer.

Theorem C17_ist_text_leer_spec : forall t : text, Ist_Text_Leer t = true <-> t = [].
Proof. exact (@ist_text_leer_spec). Qed.
Print Assumptions C17_ist_text_leer_spec.

Theorem C17_grossschreiben_text_spec : forall t : text, Grossschreiben_Wert t = map gross_ref t.
Proof. exact (@grossschreiben_text_spec). Qed.
Print Assumptions C17_grossschreiben_text_spec.

Theorem C17_kleinschreiben_text_spec : forall t : text, Kleinschreiben_Wert t = map klein_ref t.
Proof. exact (@kleinschreiben_text_spec). Qed.
Print Assumptions C17_kleinschreiben_text_spec.

Theorem C17_polster_links_spec : forall (t : text) (z n : Z), Polster_Links t z n = repeat z (Z.to_nat (n - len t)) ++ t.
Proof. exact (@polster_links_spec). Qed.
Print Assumptions C17_polster_links_spec.

Theorem C17_polster_rechts_spec : forall (t : text) (z n : Z), Polster_Rechts t z n = t ++ repeat z (Z.to_nat (n - len t)).
Proof. exact (@polster_rechts_spec). Qed.
Print Assumptions C17_polster_rechts_spec.

Theorem C17_spalte_spec : forall (t : list Z) (z : Z), t <> [] -> Spalte t z = Ok (split_ref z t).
Proof. exact (@spalte_spec). Qed.
Print Assumptions C17_spalte_spec.
Example C17_spalte_spec_nonvacuous := C17_spalte_spec [97;44] 44 ltac:(nv).

Theorem C17_spalte_leer : forall z : Z, Spalte [] z = Ok [].
Proof. exact (@spalte_leer). Qed.
Print Assumptions C17_spalte_leer.

Theorem C17_spalte_text_spec : forall (t : text) (s : list Z), 1 < len s -> Spalte_Text t s = Ok (split_iter (length t + 1) s t).
Proof. exact (@spalte_text_spec). Qed.
Print Assumptions C17_spalte_text_spec.
Example C17_spalte_text_spec_nonvacuous := C17_spalte_text_spec [97;98;99;98;99] [98;99] ltac:(nv).

Theorem C17_spalte_text_einzeln : forall (t : text) (c : Z), Spalte_Text t [c] = Spalte t c.
Proof. exact (@spalte_text_einzeln). Qed.
Print Assumptions C17_spalte_text_einzeln.

Theorem C17_finde_subtext_spec : forall (t : text) (s : list Z), s <> [] -> Finde_Subtext t s = Ok (finde_iter (length t + 1) s t 1).
Proof. exact (@finde_subtext_spec). Qed.
Print Assumptions C17_finde_subtext_spec.
Example C17_finde_subtext_spec_nonvacuous := C17_finde_subtext_spec [97;98;97;97] [97] ltac:(nv).

Theorem C17_verbinden_text_spec : forall (l : list text) (z : Z), Verbinden_Text l z = Ok (join (fun t : text => t) z l).
Proof. exact (@verbinden_text_spec). Qed.
Print Assumptions C17_verbinden_text_spec.

Theorem C17_verbinden_buchstabe_spec : forall (l : list Z) (z : Z), Verbinden_Buchstabe l z = Ok (join (fun b : Z => [b]) z l).
Proof. exact (@verbinden_buchstabe_spec). Qed.
Print Assumptions C17_verbinden_buchstabe_spec.

Theorem C17_verbinden_zahl_spec : forall (l : list Z) (z : Z), Verbinden_Zahl l z = Ok (join zahl_als_text z l).
Proof. exact (@verbinden_zahl_spec). Qed.
Print Assumptions C17_verbinden_zahl_spec.

Theorem C17_zahl_als_text_wert : forall z : Z, in_i64 z -> exists ds : list Z, zahl_als_text z = (if z <? 0 then [45] else []) ++ ds /\ ziffern_wert ds 0 = Z.abs z.
Proof. exact (@zahl_als_text_wert). Qed.
Print Assumptions C17_zahl_als_text_wert.
Example C17_zahl_als_text_wert_nonvacuous := C17_zahl_als_text_wert (-42) ltac:(unfold in_i64, two63; lia).

Theorem C17_levenshtein_spec : forall t1 t2 : text, Levenshtein_Distanz t1 t2 = Ok (lev_ref t1 t2).
Proof. exact (@levenshtein_spec). Qed.
Print Assumptions C17_levenshtein_spec.

Theorem C17_levenshtein_lev : forall t1 t2 : list Z, len t1 + len t2 < two63 -> Levenshtein_Distanz t1 t2 = Ok (lev (rev t1) (rev t2)).
Proof. exact (@levenshtein_lev). Qed.
Print Assumptions C17_levenshtein_lev.
Example C17_levenshtein_lev_nonvacuous := C17_levenshtein_lev [107;105] [115;105] ltac:(unfold two63; cbn; lia).

Theorem C17_text_zu_byteliste_spec : forall t : text, Text_Zu_ByteListe t = concat (map utf8_enc t).
Proof. exact (@text_zu_byteliste_spec). Qed.
Print Assumptions C17_text_zu_byteliste_spec.

Theorem C17_byteliste_roundtrip : forall t : list Z, Forall skalar t -> ByteListe_Zu_Text (Text_Zu_ByteListe t) = t.
Proof. exact (@byteliste_roundtrip). Qed.
Print Assumptions C17_byteliste_roundtrip.
Example C17_byteliste_roundtrip_nonvacuous := C17_byteliste_roundtrip [97;228;8364;128512] ltac:(repeat constructor; unfold skalar; lia).

Theorem C17_hamming_spec : forall a b : list Z, length a = length b -> Hamming_Distanz a b = Ok (mismatches a b).
Proof. exact (@hamming_spec). Qed.
Print Assumptions C17_hamming_spec.
Example C17_hamming_spec_nonvacuous := C17_hamming_spec [97] [98] ltac:(nv).

Theorem C17_hamming_ungleich : forall a b : list Z, length a <> length b -> Hamming_Distanz a b = Ok (-1).
Proof. exact (@hamming_ungleich). Qed.
Print Assumptions C17_hamming_ungleich.
Example C17_hamming_ungleich_nonvacuous := C17_hamming_ungleich [97] [] ltac:(nv).

Theorem C17_vergleiche_spec : forall t1 t2 : text, exists r : Z, Vergleiche_Text t1 t2 = Ok r /\ (t1 = t2 -> r = 0) /\ (forall (q : list Z) (a b : Z) (r1 r2 : list Z), t1 = q ++ a :: r1 -> t2 = q ++ b :: r2 -> a <> b -> r = a - b) /\ (forall (c : Z) (r2 : list Z), t2 = t1 ++ c :: r2 -> r = -1) /\ (forall (c : Z) (r1 : list Z), t1 = t2 ++ c :: r1 -> r = 1).
Proof. exact (@vergleiche_spec). Qed.
Print Assumptions C17_vergleiche_spec.

Theorem C17_spaltmenge_spec : forall m : list Z, inm m 0 = false -> forall t : text, Spalten_Spaltmenge_Text_Ref t m = Ok (fields_ref m t []).
Proof. exact (@spaltmenge_spec). Qed.
Print Assumptions C17_spaltmenge_spec.
Example C17_spaltmenge_spec_nonvacuous := C17_spaltmenge_spec [98] ltac:(reflexivity) [97;98].

Theorem C17_spaltmenge_text_spec : forall (t : text) (mt : list Z), inm mt 0 = false -> Spalten_SpaltmengeText_Text t mt = Ok (fields_ref mt t []).
Proof. exact (@spaltmenge_text_spec). Qed.
Print Assumptions C17_spaltmenge_text_spec.
Example C17_spaltmenge_text_spec_nonvacuous := C17_spaltmenge_text_spec [97;98] [98] ltac:(reflexivity).

Theorem C17_text_worte_spec : forall t : text, Text_Worte t = Ok (fields_ref leerzeichen t []).
Proof. exact (@text_worte_spec). Qed.
Print Assumptions C17_text_worte_spec.

