(* C18 — foreign C functions see the published value representation. *)
From Coq Require Import List Bool Arith NArith.
Import ListNotations.
From DDP Require Import Gen.AbiTables Lower.Abi Lower.AbiProofs Lower.TypeSpelling Lower.TypeSpellingProofs.

(* The signature the compiler declares for a function (in the declaring module through VisitFuncDecl, in
   an importing module through declareImportedFuncDecl — the same transcription) is, parameter by
   parameter and for every arity, the signature a C compiler derives from the published header
   convention: same symbol, same ABI class of the result and of every parameter, including the layout
   of everything reachable through a pointer. *)
Theorem C18_sig_lowering_is_abi : forall s : signature,
  abi_of_ir (lower_sig s) = abi_of_c (c_sig s) /\ abi_of_ir (lower_sig_imported s) = abi_of_c (c_sig s).
Proof. exact sig_lowering_is_abi_both. Qed.
Print Assumptions C18_sig_lowering_is_abi.

(* Field positions: the index constants the compiler uses for (arr, len, cap), (str, cap) and (vtable_ptr, value)
   are the positions of these fields in the header structs (both re-extracted from /repo on every run). *)
Theorem C18_field_roles_agree :
  go_list_roles = hdr_list_roles /\ go_string_roles = hdr_string_roles /\ go_any_roles = hdr_any_roles.
Proof. exact field_roles_agree. Qed.
Print Assumptions C18_field_roles_agree.

(* The published convention itself, as a readable statement about c_sig: primitives by value,
   everything else and every Referenz by pointer, a non-primitive result through a leading
   out-pointer with a void return. *)
Theorem C18_published_convention : forall s : signature,
  length (cs_params (c_sig s)) = length (s_params s) + (if ret_is_prim (s_ret s) then 0 else 1) /\
  (ret_is_prim (s_ret s) = false -> cs_ret (c_sig s) = CVoid /\
     exists r, s_ret s = Some r /\ nth_error (cs_params (c_sig s)) 0 = Some (CPtr (c_ty r))) /\
  (forall i p, nth_error (s_params s) i = Some p ->
     nth_error (cs_params (c_sig s)) (i + (if ret_is_prim (s_ret s) then 0 else 1)) =
       Some (if negb (p_ref p) && is_prim (p_ty p) then c_ty (p_ty p) else CPtr (c_ty (p_ty p)))).
Proof. exact c_sig_shape. Qed.
Print Assumptions C18_published_convention.

(* Around the call of an extern function, for every signature, arity and mix of temporary/variable
   arguments, the emitted plan runs without an ownership error and: every by-value non-primitive
   argument got its own value (copied from a variable, claimed from a temporary) before the call and
   that value is released exactly once after it, by the caller; nothing else is released; no claimed
   temporary stays registered with the scope; the callee receives primitives by value, the caller's own
   storage for a Referenz, the fresh slots otherwise, and the out-slot first; the result becomes an owned
   temporary exactly when it is not primitive. *)
Theorem C18_extern_call_ownership : forall (s : signature) (ks : list argkind),
  length ks = length (s_params s) ->
  exists st,
    run (init_state (temp_indices 0 (s_params s) ks)) (call_plan s ks) = Some st /\
    st_slots st = [] /\ NoDup (st_freed st) /\
    (forall i, In i (st_freed st) <->
       exists p, nth_error (s_params s) i = Some p /\ p_ref p = false /\ is_prim (p_ty p) = false) /\
    st_temps st = [] /\
    st_result_owned st = negb (ret_is_prim (s_ret s)) /\
    (forall i p, nth_error (s_params s) i = Some p ->
       nth_error (st_args st) (i + (if ret_is_prim (s_ret s) then 0 else 1)) =
         Some (if p_ref p then VRefTo i else if is_prim (p_ty p) then VPrim i else VSlot i)) /\
    (ret_is_prim (s_ret s) = false -> nth_error (st_args st) 0 = Some VRet) /\
    (forall i p k, nth_error (s_params s) i = Some p -> nth_error ks i = Some k ->
       p_ref p = false -> is_prim (p_ty p) = false ->
       In (match k with ArgTemp => Claim i | ArgVar => Copy i end) (call_plan s ks) /\
       ~ In (match k with ArgTemp => Copy i | ArgVar => Claim i end) (call_plan s ks)).
Proof. exact extern_call_ownership. Qed.
Print Assumptions C18_extern_call_ownership.

(* A Referenz argument is passed as the address of the caller's own storage and is neither copied,
   claimed nor released. *)
Theorem C18_reference_untouched : forall (s : signature) (ks : list argkind) (i : nat) (p : param),
  length ks = length (s_params s) ->
  nth_error (s_params s) i = Some p -> p_ref p = true ->
  ~ In (Copy i) (call_plan s ks) /\ ~ In (Claim i) (call_plan s ks) /\
  ~ In (FreeArg (i + (if ret_is_prim (s_ret s) then 0 else 1))) (call_plan s ks) /\
  In (PassRef i) (call_plan s ks).
Proof. exact reference_untouched. Qed.
Print Assumptions C18_reference_untouched.

(* The symbol of an extern function is its declared name in every module, whatever the module hash. *)
Theorem C18_extern_not_mangled :
  forall (M : Type) (modhash : M -> str) (d : fdecl) (m : M),
    d_extern d = true -> mangled_name M modhash d m = d_name d.
Proof. exact extern_not_mangled. Qed.
Print Assumptions C18_extern_not_mangled.

(* Generic extern functions (declared once from the generic declaration; T only inside a Referenz or a list):
   the declared IR signature agrees with the published one (ddpgenericlist*, ddpgenericlistref, ddpgenericref) for
   every arity - exactly on parameters without T, up to untyped pointers on the others - and a declaration
   without type parameters is the non-generic case. *)
Theorem C18_generic_sig_lowering_compat : forall s : gsignature,
  ab_name (abi_of_ir (lower_gsig s)) = ab_name (abi_of_c (c_gsig s)) /\
  compat (ab_ret (abi_of_ir (lower_gsig s))) (ab_ret (abi_of_c (c_gsig s))) /\
  Forall2 compat (ab_params (abi_of_ir (lower_gsig s))) (ab_params (abi_of_c (c_gsig s))).
Proof. exact generic_sig_lowering_compat. Qed.
Print Assumptions C18_generic_sig_lowering_compat.

Theorem C18_generic_declaration_generalises : forall s : signature,
  lower_gsig (gsig_of s) = lower_sig s /\ c_gsig (gsig_of s) = c_sig s.
Proof. exact gsig_of_concrete. Qed.
Print Assumptions C18_generic_declaration_generalises.

(* The call of a generic extern function: the by-value list argument that was passed as ddpgenericlist* is cast
   back and released from exactly its own slot (index shifted behind an out-pointer), and the plan ends in the same
   ownership state as the plain plan of C18_extern_call_ownership: every value made for the call released exactly
   once, nothing else, result owned. *)
Theorem C18_generic_extern_call_ownership : forall (s : signature) (gs : list bool) (ks : list argkind),
  length ks = length (s_params s) ->
  exists st,
    run (init_state (temp_indices 0 (s_params s) ks)) (call_plan_g s gs ks) = Some st /\
    run (init_state (temp_indices 0 (s_params s) ks)) (call_plan s ks) = Some st /\
    st_slots st = [] /\ NoDup (st_freed st) /\ st_temps st = [] /\
    st_result_owned st = negb (ret_is_prim (s_ret s)) /\
    (forall k, In (FreeArgCast k) (call_plan_g s gs ks) ->
       exists i p, nth_error (s_params s) i = Some p /\ p_ref p = false /\ is_list (p_ty p) = true /\
                   nth_error gs i = Some true /\
                   k = i + (if ret_is_prim (s_ret s) then 0 else 1) /\
                   nth_error (st_args st) k = Some (VSlot i)).
Proof. exact generic_extern_call_ownership. Qed.
Print Assumptions C18_generic_extern_call_ownership.

(* Frontend tie: every spelling a declaration can use for a parameter type - singular/plural, Liste/Listen, with and
   without Referenz, parenthesised by-value forms, for the five primitives, Text, Variable and any named type (Kombination,
   typedef, alias, type parameter) - parses to exactly the type and the IsReference flag it spells, consumes exactly its own
   tokens and raises no diagnostic; the parameter table the lowering starts from is the declared one. *)
Theorem C18_declared_spelling_parses : forall (b : sbase) (f : form) (rest : list tok),
  type_ends rest ->
  parse_reference_type (spelled b f ++ rest) =
    Some {| pr_ty := meant_ty b f; pr_ref := meant_ref f; pr_diag := 0; pr_rest := rest |}.
Proof. exact declared_spelling_parses. Qed.
Print Assumptions C18_declared_spelling_parses.

(* ---- non-vacuity ------------------------------------------------------------------------------ *)
Definition ex_paar : ty := TStruct [TPrim PZahl; TText].
Definition ex_sig : signature :=
  {| s_name := [102]%N;
     s_params := [ {| p_ty := TPrim PWahrheitswert; p_ref := false |};
                   {| p_ty := TText; p_ref := false |};
                   {| p_ty := TList TText; p_ref := true |};
                   {| p_ty := TNamed ex_paar; p_ref := false |};
                   {| p_ty := TPrim PByte; p_ref := true |} ];
     s_ret := Some TVariable |}.

Example C18_ex_lowering :
  abi_of_ir (lower_sig ex_sig) =
  {| ab_name := [102]%N; ab_ret := RVoid;
     ab_params := [ RPtr (RStruct [RPtr (RInt 8); RBlob 16]);                              (* ddpany *ret *)
                    RBool;                                                                  (* ddpbool *)
                    RPtr (RStruct [RPtr (RInt 8); RInt 64]);                                (* ddpstring * *)
                    RPtr (RStruct [RPtr (RStruct [RPtr (RInt 8); RInt 64]); RInt 64; RInt 64]); (* ddpstringlist * *)
                    RPtr (RStruct [RInt 64; RStruct [RPtr (RInt 8); RInt 64]]);             (* Paar * *)
                    RPtr (RInt 8) ] |}.                                                     (* ddpbyte * *)
Proof. reflexivity. Qed.

Example C18_ex_published : cs_ret (c_sig ex_sig) = CVoid /\ length (cs_params (c_sig ex_sig)) = 6 /\
  nth_error (cs_params (c_sig ex_sig)) 1 = Some CBool /\ nth_error (cs_params (c_sig ex_sig)) 5 = Some (CPtr CUInt8).
Proof. vm_compute. repeat split. Qed.

Example C18_ex_plan :
  call_plan ex_sig [ArgVar; ArgTemp; ArgVar; ArgVar; ArgVar] =
  [AllocRet; PassValue 0; Claim 1; PassRef 2; Copy 3; PassRef 4; Call; ResultTemp; FreeArg 2; FreeArg 4] /\
  exists st, run (init_state (temp_indices 0 (s_params ex_sig) [ArgVar; ArgTemp; ArgVar; ArgVar; ArgVar]))
                 (call_plan ex_sig [ArgVar; ArgTemp; ArgVar; ArgVar; ArgVar]) = Some st /\
             st_freed st = [1; 3] /\ st_result_owned st = true.
Proof. split; [reflexivity |]. eexists. split; [vm_compute; reflexivity |]. split; reflexivity. Qed.

Example C18_ex_reference : p_ref {| p_ty := TList TText; p_ref := true |} = true /\
  In (PassRef 2) (call_plan ex_sig [ArgVar; ArgTemp; ArgVar; ArgVar; ArgVar]).
Proof. split; [reflexivity |]. vm_compute. tauto. Qed.

(* the semantics does reject wrong plans: dropping the "+1" of the free loop releases the out-slot *)
Example C18_ex_wrong_index_rejected : run (init_state []) [AllocRet; Copy 0; Call; ResultTemp; FreeArg 0] = None.
Proof. reflexivity. Qed.

Example C18_ex_names :
  let h := fun m : nat => [N.of_nat m] in
  mangled_name nat h {| d_name := [102]%N; d_extern := true; d_extern_visible := false; d_generic_suffix := None |} 1 = [102]%N /\
  mangled_name nat h {| d_name := [102]%N; d_extern := false; d_extern_visible := false; d_generic_suffix := None |} 1
    = [102; 95; 109; 111; 100; 95; 1]%N.
Proof. split; reflexivity. Qed.

(* generic: "g mit l vom Typ T Liste, r vom Typ T Listen Referenz, e vom Typ T Referenz, gibt einen Text zurück" *)
Definition ex_gsig : gsignature :=
  {| g_name := [103]%N; g_params := [GConcrete {| p_ty := TPrim PZahl; p_ref := false |}; GListVal; GRef true; GRef false];
     g_ret := GRetConcrete (Some TText) |}.
Example C18_ex_generic_lowering :
  is_params (lower_gsig ex_gsig) =
    [LPtr (LStruct [LPtr LI8; LI64]); LI64; LPtr (LStruct [LPtr LI8; LI64; LI64]); LPtr LI8; LPtr LI8] /\
  cs_params (c_gsig ex_gsig) =
    [CPtr (CStruct [CPtr CChar; CInt64]); CInt64; CPtr (CStruct [CPtr CVoid; CInt64; CInt64]);
     CPtr (CStruct [CPtr CVoid; CInt64; CInt64]); CPtr CVoid].
Proof. split; reflexivity. Qed.

(* instantiated with T = Zahl, Text result: the cast-and-release hits args[2+1]; the un-shifted index is rejected *)
Definition ex_inst : signature :=
  {| s_name := [103]%N;
     s_params := [ {| p_ty := TPrim PZahl; p_ref := false |}; {| p_ty := TList (TPrim PZahl); p_ref := false |};
                   {| p_ty := TList (TPrim PZahl); p_ref := true |}; {| p_ty := TPrim PZahl; p_ref := true |} ];
     s_ret := Some TText |}.
Example C18_ex_generic_plan :
  call_plan_g ex_inst [false; true; true; true] [ArgVar; ArgVar; ArgVar; ArgVar] =
  [AllocRet; PassValue 0; Copy 1; PassRef 2; PassRef 3; Call; ResultTemp; FreeArgCast 2] /\
  run (init_state []) [AllocRet; PassValue 0; Copy 1; PassRef 2; PassRef 3; Call; ResultTemp; FreeArgCast 1] = None.
Proof. split; vm_compute; reflexivity. Qed.

(* "Variablen Listen Referenz" is a reference to a list of Variable; without the word Referenz it is diagnosed *)
Example C18_ex_spelling :
  parse_reference_type [TkVariablen; TkListen; TkReferenz; TkOther] =
    Some {| pr_ty := SList SVariable; pr_ref := true; pr_diag := 0; pr_rest := [TkOther] |} /\
  type_ends [TkOther] /\
  match parse_reference_type [TkVariablen; TkListen; TkOther] with Some p => pr_diag p = 1 | None => False end.
Proof. split; [reflexivity |]. split; [right; eexists; reflexivity | reflexivity]. Qed.
