(* C19 — every literal denotes its written value.
   Only statements + `exact` of lemmas proved in Lex/, each followed by Print Assumptions.
   Non-vacuity examples for every hypothesis: Lex/LitExamples.v (required below so that it is checked).
   Code points and bytes are N; 34 is the double quote, 39 the single quote, 92 the backslash, 44 the comma. *)
From Coq Require Import List NArith ZArith Bool Reals.
From Coq Require Import Floats.SpecFloat.
From Flocq Require Import Core.Core IEEE754.BinarySingleNaN.
Import ListNotations.
From DDP Require Import Lex.LitUtf8 Lex.LitUtf8Proofs Gen.LitEscapes Lex.Literals Lex.LiteralProofs
                        Lex.LitFloatProofs Lex.LitExamples.
Open Scope N_scope.

(* the escape tables regenerated from scanner.go / expressions.go are the specification's table:
   scanner and parser accept exactly \a \b \n \r \t \\ and the quote of the literal kind, with these values *)
Theorem C19_escape_tables_agree :
  (forall e, lookup e parse_string_escapes = esc_val 34 e) /\
  (forall e, lookup e parse_char_escapes = esc_val 39 e) /\
  (forall e, scan_is_escape 34 e = is_some (esc_val 34 e)) /\
  (forall e, scan_is_escape 39 e = is_some (esc_val 39 e)) /\
  scan_string_quote = 34 /\ scan_char_quote = 39.
Proof.
  exact (conj string_table_spec (conj char_table_spec (conj scan_escape_spec_string
        (conj scan_escape_spec_char scan_quotes)))).
Qed.
Print Assumptions C19_escape_tables_agree.

(* UTF-8: decoding an encoded scalar value gives it back with its width (used for every index step) *)
Theorem C19_decode_encode :
  forall c rest, valid_cp c = true -> decode_rune (encode_rune c ++ rest) = (c, nlen (encode_rune c)).
Proof. exact decode_encode. Qed.
Print Assumptions C19_decode_encode.

(* the splice loop of parseString, for EVERY body of scalar values: it never slices out of range, never
   runs out of fuel, and returns the unit-wise translation together with the number of unknown escapes
   (translate keeps the backslash of an unknown escape and goes on behind it) *)
Theorem C19_parse_string_total :
  forall body, forallb valid_cp body = true ->
  parse_string (encode body) = POk (encode (fst (translate 34 body))) (snd (translate 34 body)).
Proof. exact parse_string_translate. Qed.
Print Assumptions C19_parse_string_total.

(* a body without unknown escape evaluates to exactly its written value, without diagnostic *)
Theorem C19_parse_string_denote :
  forall body d, forallb valid_cp body = true -> denote 34 body = Some d ->
  parse_string (encode body) = POk (encode d) 0.
Proof. exact parse_string_denote. Qed.
Print Assumptions C19_parse_string_denote.

(* scanner + parser: what the scanner delimits as a text literal is src up to the first unescaped quote; the
   scanner's diagnostic count k is the parser's; k = 0 exactly when the body has a written value, and then
   the parser returns that value *)
Theorem C19_string_literal_spec :
  forall src body rest k, forallb valid_cp src = true ->
  scan_string src = (Some (body, rest), k) ->
  src = body ++ 34 :: rest /\
  parse_string (encode body) = POk (encode (fst (translate 34 body))) k /\
  (k = 0 <-> denote 34 body <> None) /\
  (forall d, denote 34 body = Some d -> k = 0 /\ parse_string (encode body) = POk (encode d) 0).
Proof. exact string_literal_spec. Qed.
Print Assumptions C19_string_literal_spec.

(* an unknown escape sequence is diagnosed by the scanner and by the parser *)
Theorem C19_parse_string_reject :
  forall src body rest k, forallb valid_cp src = true ->
  scan_string src = (Some (body, rest), k) -> denote 34 body = None ->
  0 < k /\ exists s, parse_string (encode body) = POk s k.
Proof. exact string_literal_reject. Qed.
Print Assumptions C19_parse_string_reject.

(* every text (any code points, incl. quotes, backslashes, line breaks) can be written: escape s denotes s
   and is accepted by the scanner without diagnostic, for both literal kinds *)
Theorem C19_escape_roundtrip :
  forall q s rest, q = 34 \/ q = 39 ->
  denote q (escape q s) = Some s /\
  exists b, scan_lit q (escape q s ++ q :: rest) = (Some (escape q s, rest), 0, b).
Proof. exact (fun q s rest Hq => conj (denote_escape q s Hq) (scan_escape q s rest Hq)). Qed.
Print Assumptions C19_escape_roundtrip.

(* a character literal the scanner accepts without diagnostic denotes exactly one character, which parseChar
   returns; (contrapositive: everything else — empty, two characters, unknown escape — is diagnosed) *)
Theorem C19_parse_char_spec :
  forall src body rest k, forallb valid_cp src = true ->
  scan_char src = (Some (body, rest), k) ->
  src = body ++ 39 :: rest /\
  (k = 0 -> exists c, denote 39 body = Some [c] /\ parse_char (encode body) = (Z.of_N c, 0)).
Proof. exact char_literal_spec. Qed.
Print Assumptions C19_parse_char_spec.

(* parseChar on backslash + any character: the escape value, or a diagnostic of its own *)
Theorem C19_parse_char_escape :
  forall e, valid_cp e = true ->
  parse_char (encode [92; e]) = match esc_val 39 e with Some v => (Z.of_N v, 0) | None => (Z.of_N e, 1) end.
Proof. exact parse_char_escape. Qed.
Print Assumptions C19_parse_char_escape.

(* every single character other than ' and \ and every escape is accepted *)
Theorem C19_char_literal_complete :
  forall rest,
  (forall c, c <> 39 -> c <> 92 -> scan_char (c :: 39 :: rest) = (Some ([c], rest), 0)) /\
  (forall e v, esc_val 39 e = Some v -> scan_char (92 :: e :: 39 :: rest) = (Some ([92; e], rest), 0)).
Proof. exact char_literal_complete. Qed.
Print Assumptions C19_char_literal_complete.

(* integer literals: the positional value, accepted exactly up to 2^63-1; above: diagnostic (value 0 is
   never used: the module is faulty) — in uint64 arithmetic with explicit wrap-around as in strconv *)
Theorem C19_parse_int_spec :
  forall ds, ds <> [] -> forallb is_digit ds = true ->
  parse_int ds = (if dec_value ds <? two63 then NumOk (dec_value ds) else NumRange) /\
  parse_int_lit ds = (if dec_value ds <? two63 then (dec_value ds, 0) else (0, 1)).
Proof. exact (fun ds Hne Hd => conj (parse_int_spec ds Hne Hd) (parse_int_lit_spec ds Hne Hd)). Qed.
Print Assumptions C19_parse_int_spec.

(* signed integer literals (negate() on a NEGATE INT pair; strconv.ParseInt("-" ++ digits) with its sign handling):
   every written value in [-2^63, 2^63-1] is obtained; -digits below -2^63 and unsigned digits from 2^63 on are
   rejected with a diagnostic (fix 110b0cc: before it, -9223372036854775808 was rejected) *)
Theorem C19_signed_int_spec :
  forall ds, ds <> [] -> forallb is_digit ds = true ->
  parse_int_lit ds = (if dec_value ds <? two63 then (dec_value ds, 0) else (0, 1)) /\
  negate_int_lit ds = (if dec_value ds <=? two63 then ((- Z.of_N (dec_value ds))%Z, 0) else (0%Z, 1)).
Proof. exact (fun ds Hne Hd => conj (parse_int_lit_spec ds Hne Hd) (negate_int_lit_spec ds Hne Hd)). Qed.
Print Assumptions C19_signed_int_spec.

(* Kommazahl literals  ip , fp  of ANY length: the value is the decimal correctly rounded to binary64
   (round to nearest, ties to even, Flocq's generic rounding); a literal whose rounding is not finite is
   rejected.  dec_real ip fp = (digits ip++fp as an integer) / 10^|fp| as a real number. *)
Theorem C19_parse_float_correctly_rounded :
  forall ip fp, ip <> [] -> forallb is_digit ip = true -> forallb is_digit fp = true ->
  let x := dec_real ip fp in
  if Rlt_bool (Rabs (round radix2 (SpecFloat.fexp 53 1024) ZnearestE x)) (bpow radix2 1024) then
    exists f, parse_float (ip ++ 44 :: fp) = FOk f /\ valid_binary 53 1024 f = true /\
              SF2R radix2 f = round radix2 (SpecFloat.fexp 53 1024) ZnearestE x /\
              is_finite_SF f = true /\ sign_SF f = false
  else parse_float (ip ++ 44 :: fp) = FRange.
Proof. exact parse_float_correct. Qed.
Print Assumptions C19_parse_float_correctly_rounded.
