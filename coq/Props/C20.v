(* C20 — duplicate aliases are always rejected; declared aliases stay callable.
   Only statements + `exact` of lemmas proved elsewhere, each followed by Print Assumptions. *)
From Coq Require Import List NArith Bool.
Import ListNotations.
From DDP Require Import Alias.OMap Alias.OMapProofs Alias.Trie Alias.TrieProofs Alias.TokKey Alias.C20Model.

(* the key equality of the real trie is an equivalence relation *)
Theorem C20_tok_eq_equivalence :
  (forall a, tok_eq a a = true) /\ (forall a b, tok_eq a b = tok_eq b a) /\
  (forall a b c, tok_eq a b = true -> tok_eq b c = true -> tok_eq a c = true).
Proof. exact (conj tok_eq_refl (conj tok_eq_sym tok_eq_trans)). Qed.
Print Assumptions C20_tok_eq_equivalence.

(* every history of Set/Get/Delete on the sorted-slice map answers as an association list,
   for ANY ordering predicate (in particular one inconsistent with equality) *)
Theorem C20_omap_refines_assoc_list :
  forall (K V : Type) (keq klt : K -> K -> bool),
    (forall a b, keq a b = keq b a) ->
    (forall a b c, keq a b = true -> keq b c = true -> keq a c = true) ->
    forall ops : list (op K V), OMap.run (OMap.step keq klt) [] ops = OMap.run (OMap.sstep keq) [] ops.
Proof. exact omap_history. Qed.
Print Assumptions C20_omap_refines_assoc_list.

(* every history of declare/lookup on the trie answers as an association list keyed by token
   sequences *)
Theorem C20_trie_refines_assoc_list :
  forall ops : list (top tok N),
    map (obs N) (c20_run ops) = srun tok N tok_eq [] ops.
Proof.
  exact (fun ops => trie_refines_assoc_list tok N tok_eq tok_less tok_eq_sym tok_eq_trans ops empty []
                      (TR_init tok N tok_eq tok_less)).
Qed.
Print Assumptions C20_trie_refines_assoc_list.

Definition state_after := state_after tok N tok_eq tok_less.

(* first half of the property *)
Theorem C20_dup_rejected :
  forall ops1 ks v ops2 ks' v',
    lookup tok_eq tok_less (state_after ops1) ks = None ->
    eql tok_eq ks ks' = true ->
    exists w, snd (tstep tok_eq tok_less (state_after (ops1 ++ Declare ks v :: ops2)) (Declare ks' v')) = Rejected w.
Proof. exact (dup_rejected tok N tok_eq tok_less tok_eq_sym tok_eq_trans). Qed.
Print Assumptions C20_dup_rejected.

(* second half of the property *)
Theorem C20_stays_callable :
  forall ops1 ks v ops2 ks',
    lookup tok_eq tok_less (state_after ops1) ks = None ->
    eql tok_eq ks ks' = true ->
    lookup tok_eq tok_less (state_after (ops1 ++ Declare ks v :: ops2)) ks' = Some v.
Proof. exact (stays_callable tok N tok_eq tok_less tok_eq_sym tok_eq_trans). Qed.
Print Assumptions C20_stays_callable.

(* why the fallback is needed: ordering and equality of the real keys are inconsistent, and the
   binary-search-only lookup (the tree before the fix) loses a key *)
Theorem C20_order_inconsistent_with_equality :
  exists a b, tok_eq a b = false /\ tok_less a b = false /\ tok_less b a = false.
Proof. exact tok_trichotomy_refuted. Qed.
Print Assumptions C20_order_inconsistent_with_equality.

Theorem C20_strict_lookup_refuted :
  exists (m : list (tok * N)) k, In k (keys m) /\ get_strict tok_eq tok_less m k = None.
Proof. exact (ex_intro _ lost_map (ex_intro _ (ph 1 3) strict_lookup_loses_key)). Qed.
Print Assumptions C20_strict_lookup_refuted.
