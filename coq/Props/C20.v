(* C20 — duplicate aliases are always rejected; declared aliases stay callable.
   Only statements + `exact` of lemmas proved elsewhere, each followed by Print Assumptions. *)
From Coq Require Import List NArith Bool.
Import ListNotations.
From DDP Require Import Alias.OMap Alias.OMapProofs Alias.Trie Alias.TrieProofs Alias.TokKey Alias.C20Model.

(* the key equality of the real trie is an equivalence relation *)
Theorem C20_tok_eq_equivalence :
  (forall a, tok_eq a a = true) /\ (forall a b, tok_eq a b = tok_eq b a) /\
  (forall a b c, tok_eq a b = true -> tok_eq b c = true -> tok_eq a c = true).
Proof. exact (conj tok_eq_refl (conj tok_eq_sym tok_eq_trans)). Qed.
Print Assumptions C20_tok_eq_equivalence.

(* every history of Set/Get/Delete on the sorted-slice map answers as an association list,
   for ANY ordering predicate (in particular one inconsistent with equality) *)
Theorem C20_omap_refines_assoc_list :
  forall (K V : Type) (keq klt : K -> K -> bool),
    (forall a b, keq a b = keq b a) ->
    (forall a b c, keq a b = true -> keq b c = true -> keq a c = true) ->
    forall ops : list (op K V), OMap.run (OMap.step keq klt) [] ops = OMap.run (OMap.sstep keq) [] ops.
Proof. exact omap_history. Qed.
Print Assumptions C20_omap_refines_assoc_list.

(* every history of Declare / Lookup / Search / Put (the unconditional, overwriting Insert of the
   generic context) / Fork (copy the trie, run an inner history on the copy, continue on the
   original; nested to any depth) on the trie answers as an association list keyed by token
   sequences, on which Put replaces the entry of an equal key and a fork leaves no trace *)
Theorem C20_trie_refines_assoc_list :
  forall ops : list (top tok N),
    map (obs N) (c20_run ops) = srun tok N tok_eq [] ops.
Proof.
  exact (fun ops => trie_refines_assoc_list tok N tok_eq tok_less tok_isph tok_isarg tok_eq_sym tok_eq_trans ops empty []
                      (TR_init tok N tok_eq tok_less)).
Qed.
Print Assumptions C20_trie_refines_assoc_list.

(* Copy is the identity on what a trie represents *)
Theorem C20_copy_is_identity :
  forall t : trie tok N, wf tok N tok_eq t ->
    wf tok N tok_eq (copy tok_eq tok_less t) /\
    forall ks, lookup tok_eq tok_less (copy tok_eq tok_less t) ks = lookup tok_eq tok_less t ks.
Proof. exact (copy_correct tok N tok_eq tok_less tok_eq_sym tok_eq_trans). Qed.
Print Assumptions C20_copy_is_identity.

Definition state_after := state_after tok N tok_eq tok_less tok_isph tok_isarg.
Definition spec_after := spec_after tok N tok_eq.

(* isolation of one fork: for every history h, every inner history (Puts over keys of the
   original, declarations, nested forks) and every continuation, the continuation answers exactly
   as in the history without the fork, and the fork answers as the association list of the
   original at that moment *)
Theorem C20_fork_isolation :
  forall h inner cont : list (top tok N),
    c20_run (h ++ Fork inner :: cont) =
      c20_run h ++ (ForkBegin :: trun tok_eq tok_less tok_isph tok_isarg (copy tok_eq tok_less (state_after h)) inner ++ [ForkEnd])
      ++ trun tok_eq tok_less tok_isph tok_isarg (state_after h) cont
    /\ c20_run (h ++ cont) = c20_run h ++ trun tok_eq tok_less tok_isph tok_isarg (state_after h) cont
    /\ map (obs N) (trun tok_eq tok_less tok_isph tok_isarg (copy tok_eq tok_less (state_after h)) inner) = srun tok N tok_eq (spec_after h) inner.
Proof. exact (fork_isolation tok N tok_eq tok_less tok_isph tok_isarg tok_eq_sym tok_eq_trans). Qed.
Print Assumptions C20_fork_isolation.

(* isolation of any number of forks anywhere in a history: the outputs outside the forks are the
   outputs of the history with every fork erased *)
Theorem C20_forks_invisible :
  forall ops : list (top tok N), strip_forks 0 (c20_run ops) = c20_run (erase_forks ops).
Proof. exact (fun ops => forks_invisible tok N tok_eq tok_less tok_isph tok_isarg ops empty). Qed.
Print Assumptions C20_forks_invisible.

(* first half of the property; ops2 may contain any number of forks whose inner histories Put the
   same key - only a Put on the trie itself (which the parser never issues) is excluded *)
Theorem C20_dup_rejected :
  forall ops1 ks v ops2 ks' v',
    forallb (fun o => negb (is_put o)) ops2 = true ->
    lookup tok_eq tok_less (state_after ops1) ks = None ->
    eql tok_eq ks ks' = true ->
    snd (tstep tok_eq tok_less tok_isph tok_isarg (state_after (ops1 ++ Declare ks v :: ops2)) (Declare ks' v')) = [Rejected v].
Proof. exact (dup_rejected tok N tok_eq tok_less tok_isph tok_isarg tok_eq_sym tok_eq_trans). Qed.
Print Assumptions C20_dup_rejected.

(* second half of the property, across forks *)
Theorem C20_stays_callable :
  forall ops1 ks v ops2 ks',
    forallb (fun o => negb (is_put o)) ops2 = true ->
    lookup tok_eq tok_less (state_after ops1) ks = None ->
    eql tok_eq ks ks' = true ->
    lookup tok_eq tok_less (state_after (ops1 ++ Declare ks v :: ops2)) ks' = Some v.
Proof. exact (stays_callable tok N tok_eq tok_less tok_isph tok_isarg tok_eq_sym tok_eq_trans). Qed.
Print Assumptions C20_stays_callable.

(* Search with the parser's key generator (a placeholder child accepts any argument token, every
   other child the equal token; every matching child is explored) refines the association list:
   after every history it returns - without dereferencing nil - exactly the values bound to the
   non-empty declared patterns that a prefix of the call instantiates *)
Theorem C20_search_refines_assoc_list :
  forall (ops : list (top tok N)) (q : list tok),
    exists r, search_seq tok_eq tok_less tok_isph tok_isarg q (state_after ops) = Some r /\
      forall v, In v r <-> exists ks, ks <> [] /\ inst_prefix tok_eq tok_isph tok_isarg ks q = true /\
                                   slookup tok N tok_eq (spec_after ops) ks = Some v.
Proof. exact (search_refines_history tok N tok_eq tok_less tok_isph tok_isarg tok_eq_refl tok_eq_sym tok_eq_trans tok_isph_congr). Qed.
Print Assumptions C20_search_refines_assoc_list.

(* the same for every trie that represents an association list, i.e. also inside forks *)
Theorem C20_search_refines_assoc_list_any_state :
  forall (t : trie tok N) (l : list (list tok * N)) (q : list tok),
    TR tok N tok_eq tok_less t l ->
    exists r, search_seq tok_eq tok_less tok_isph tok_isarg q t = Some r /\
      forall v, In v r <-> exists ks, ks <> [] /\ inst_prefix tok_eq tok_isph tok_isarg ks q = true /\
                                   slookup tok N tok_eq l ks = Some v.
Proof. exact (search_refines tok N tok_eq tok_less tok_isph tok_isarg tok_eq_refl tok_eq_sym tok_eq_trans tok_isph_congr). Qed.
Print Assumptions C20_search_refines_assoc_list_any_state.

(* second half of the property as the parser uses the trie: a declared alias is among the aliases
   Search returns for every call that instantiates its pattern (placeholders replaced by arguments,
   all other tokens equal, anything may follow), whatever other aliases exist - a sibling with a
   literal word where this alias has a placeholder does not hide it - and across forks *)
Theorem C20_callable_by_search :
  forall ops1 ks v ops2 c rest,
    forallb (fun o => negb (is_put o)) ops2 = true ->
    lookup tok_eq tok_less (state_after ops1) ks = None ->
    ks <> [] ->
    instantiates tok_eq tok_isph tok_isarg ks c = true ->
    exists r, search_seq tok_eq tok_less tok_isph tok_isarg (c ++ rest) (state_after (ops1 ++ Declare ks v :: ops2)) = Some r /\ In v r.
Proof. exact (callable_by_search tok N tok_eq tok_less tok_isph tok_isarg tok_eq_refl tok_eq_sym tok_eq_trans tok_isph_congr). Qed.
Print Assumptions C20_callable_by_search.

(* why the side condition: Put is the operation that rebinds an existing key *)
Theorem C20_put_overwrites :
  forall ops ks v ks',
    eql tok_eq ks ks' = true -> lookup tok_eq tok_less (state_after (ops ++ [Put ks v])) ks' = Some v.
Proof. exact (put_overwrites tok N tok_eq tok_less tok_isph tok_isarg tok_eq_sym tok_eq_trans). Qed.
Print Assumptions C20_put_overwrites.

(* why the fallback is needed: ordering and equality of the real keys are inconsistent, and the
   binary-search-only lookup (the tree before the fix) loses a key *)
Theorem C20_order_inconsistent_with_equality :
  exists a b, tok_eq a b = false /\ tok_less a b = false /\ tok_less b a = false.
Proof. exact tok_trichotomy_refuted. Qed.
Print Assumptions C20_order_inconsistent_with_equality.

Theorem C20_strict_lookup_refuted :
  exists (m : list (tok * N)) k, In k (keys m) /\ get_strict tok_eq tok_less m k = None.
Proof. exact (ex_intro _ lost_map (ex_intro _ (ph 1 3) strict_lookup_loses_key)). Qed.
Print Assumptions C20_strict_lookup_refuted.
