(* Model of the emitted bounds checks (src/compiler/compiler.go:1302-1334 rvalue index,
   1977-1993 assignable/Referenz index; src/compiler/list_types.go:443-569 list slice;
   lib/runtime/source/DDP/operators.c:19-125 text index/replace/slice at code-point level;
   compiler.go:1746-1795 Variable cast tag check). Zahl = 64-bit two's complement: every
   arithmetic step of the generated code is wrapped explicitly. None = Laufzeitfehler. *)
From Coq Require Import List ZArith Bool Lia.
Import ListNotations.
Open Scope Z_scope.

Definition two63 : Z := 9223372036854775808.
Definition two64 : Z := 18446744073709551616.
Definition in_i64 (z : Z) : Prop := - two63 <= z < two63.
Definition wrap64 (z : Z) : Z := (z + two63) mod two64 - two63.

(* index := sub (zext/id rhs) 1 ; cond := (index <s len) && (index >=s 0) *)
Definition idx_ok (len i : Z) : bool :=
  let j := wrap64 (i - 1) in (j <? len) && (j >=? 0).

Definition list_index {A} (l : list A) (i : Z) : option A :=
  if idx_ok (Z.of_nat (length l)) i then nth_error l (Z.to_nat (wrap64 (i - 1))) else None.

(* assignment through `l an der Stelle i` / Referenz to the element: same check, then store *)
Fixpoint set_nth {A} (l : list A) (n : nat) (v : A) : list A :=
  match l, n with
  | [], _ => []
  | _ :: r, O => v :: r
  | x :: r, S m => x :: set_nth r m v
  end.
Definition list_store {A} (l : list A) (i : Z) (v : A) : option (list A) :=
  if idx_ok (Z.of_nat (length l)) i then Some (set_nth l (Z.to_nat (wrap64 (i - 1))) v) else None.

(* a Byte index is zero-extended before the same check *)
Definition byte_index_value (b : Z) : Z := b mod 256.

(* clamp helper emitted inside ddp_x_slice (signed comparisons) and its C twin *)
Definition clampZ (v lo hi : Z) : Z :=
  let t := if v <? lo then lo else v in if t >? hi then hi else t.

Inductive slice_result (A : Type) := SliceOk (l : list A) | SliceError.
Arguments SliceOk {A}. Arguments SliceError {A}.

Definition list_slice {A} (l : list A) (i1 i2 : Z) : slice_result A :=
  let len := Z.of_nat (length l) in
  if len <=? 0 then SliceOk []
  else
    let a := clampZ i1 1 len in
    let b := clampZ i2 1 len in
    if b <? a then SliceError
    else
      let a0 := wrap64 (a - 1) in
      let b0 := wrap64 (b - 1) in
      let n := wrap64 (wrap64 (b0 - a0) + 1) in
      SliceOk (firstn (Z.to_nat n) (skipn (Z.to_nat a0) l)).

(* BIN_SLICE_FROM passes (i, len); BIN_SLICE_TO passes (1, i) *)
Definition list_slice_from {A} (l : list A) (i : Z) := list_slice l i (Z.of_nat (length l)).
Definition list_slice_to {A} (l : list A) (i : Z) := list_slice l 1 i.

(* Text at code-point level. cap is the byte capacity (>= number of bytes + 1 for a non-empty text,
   0 for the empty text); the byte-level walk is C12's model, here the domain decision. *)
Definition text_index (cap : Z) (cps : list Z) (i : Z) : option Z :=
  if i <? 1 then None
  else if (i >? cap) || (cap <=? 1) then None
  else nth_error cps (Z.to_nat (i - 1)).

Definition text_replace (cap : Z) (cps : list Z) (i : Z) (c : Z) : option (list Z) :=
  if i <? 1 then None
  else if (i >? cap) || (cap <=? 1) then None
  else if (Z.to_nat (i - 1) <? length cps)%nat then Some (set_nth cps (Z.to_nat (i - 1)) c) else None.

Definition text_slice (cps : list Z) (i1 i2 : Z) : slice_result Z :=
  let len := Z.of_nat (length cps) in
  if len <=? 0 then SliceOk []
  else
    let a := clampZ i1 1 len in
    let b := clampZ i2 1 len in
    if b <? a then SliceError
    else SliceOk (firstn (Z.to_nat (b - a + 1)) (skipn (Z.to_nat (a - 1)) cps)).

(* Variable (any) cast: compare the vtable of the held value with the target's *)
Definition any_cast {V} (held_tag target_tag : Z) (v : V) : option V :=
  if held_tag =? target_tag then Some v else None.

(* the unimplemented statement `...` and every failed check end in ddp_runtime_error(1, ...) *)
Inductive outcome := Exit (code : Z) | Laufzeitfehler (code : Z).
Definition runtime_error (code : Z) : outcome := Laufzeitfehler code.
Definition todo_stmt : outcome := runtime_error 1.
