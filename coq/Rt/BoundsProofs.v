From Coq Require Import List ZArith Bool Lia.
Import ListNotations.
From DDP Require Import Rt.Bounds.
Open Scope Z_scope.

Lemma wrap64_id z : in_i64 z -> wrap64 z = z.
Proof.
  unfold in_i64, wrap64, two63, two64. intros H.
  rewrite Z.mod_small by lia. lia.
Qed.

Lemma wrap64_range z : in_i64 (wrap64 z).
Proof.
  unfold in_i64, wrap64, two63, two64.
  pose proof (Z.mod_pos_bound (z + 9223372036854775808) 18446744073709551616 ltac:(lia)). lia.
Qed.

(* i - 1 wraps only for i = INT64_MIN, and then to INT64_MAX *)
Lemma wrap64_pred_min : wrap64 (- two63 - 1) = two63 - 1.
Proof. vm_compute. reflexivity. Qed.

(* the emitted check accepts exactly 1..len, for every 64-bit index, including 0, negatives and
   INT64_MIN (where i-1 wraps around to INT64_MAX, which is not < len) *)
Lemma idx_ok_domain len i :
  0 <= len < two63 -> in_i64 i -> (idx_ok len i = true <-> 1 <= i <= len).
Proof.
  intros Hlen Hi. unfold idx_ok.
  destruct (Z.eq_dec i (- two63)) as [->|Hne].
  - rewrite wrap64_pred_min. unfold two63 in *. split; intros H.
    + apply andb_true_iff in H. destruct H as [H _]. apply Z.ltb_lt in H. lia.
    + lia.
  - rewrite wrap64_id by (unfold in_i64, two63 in *; lia).
    rewrite andb_true_iff, Z.ltb_lt, Z.geb_le. lia.
Qed.

Lemma list_index_domain {A} (l : list A) i :
  Z.of_nat (length l) < two63 -> in_i64 i ->
  ((exists x, list_index l i = Some x) <-> 1 <= i <= Z.of_nat (length l)).
Proof.
  intros Hl Hi. unfold list_index.
  pose proof (idx_ok_domain (Z.of_nat (length l)) i ltac:(lia) Hi) as Hd.
  destruct (idx_ok (Z.of_nat (length l)) i) eqn:E.
  - split; [intros _; apply Hd; reflexivity|]. intros Hr.
    rewrite wrap64_id by (unfold in_i64, two63 in *; lia).
    destruct (nth_error l (Z.to_nat (i - 1))) eqn:En; [eauto|].
    apply nth_error_None in En. lia.
  - split; [intros [x Hx]; discriminate Hx|]. intros Hr. apply Hd in Hr. congruence.
Qed.

(* in the domain the selected element is the i-th one (1-based) *)
Lemma list_index_value {A} (l : list A) i :
  Z.of_nat (length l) < two63 -> 1 <= i <= Z.of_nat (length l) ->
  list_index l i = nth_error l (Z.to_nat (i - 1)).
Proof.
  intros Hl Hr. unfold list_index.
  assert (Hi : in_i64 i) by (unfold in_i64, two63 in *; lia).
  pose proof (idx_ok_domain (Z.of_nat (length l)) i ltac:(lia) Hi) as Hd.
  replace (idx_ok (Z.of_nat (length l)) i) with true by (symmetry; apply Hd; exact Hr).
  rewrite wrap64_id by (unfold in_i64, two63 in *; lia). reflexivity.
Qed.

Lemma length_set_nth {A} (l : list A) n v : length (set_nth l n v) = length l.
Proof. revert n; induction l as [|x r IH]; intros [|m]; cbn; auto. Qed.

Lemma nth_set_nth {A} (l : list A) n v k :
  (n < length l)%nat -> nth_error (set_nth l n v) k = if Nat.eqb k n then Some v else nth_error l k.
Proof.
  revert n k; induction l as [|x r IH]; intros [|m] [|k] H; cbn in *; try lia; try reflexivity.
  apply IH. lia.
Qed.

(* a store through an index changes exactly that slot, and fails exactly outside 1..len *)
Lemma list_store_spec {A} (l : list A) i v :
  Z.of_nat (length l) < two63 -> in_i64 i ->
  match list_store l i v with
  | Some l' => 1 <= i <= Z.of_nat (length l) /\ length l' = length l /\
               forall k, nth_error l' k = if Nat.eqb k (Z.to_nat (i - 1)) then Some v else nth_error l k
  | None => ~ (1 <= i <= Z.of_nat (length l))
  end.
Proof.
  intros Hl Hi. unfold list_store.
  pose proof (idx_ok_domain (Z.of_nat (length l)) i ltac:(lia) Hi) as Hd.
  destruct (idx_ok (Z.of_nat (length l)) i) eqn:E.
  - assert (Hr : 1 <= i <= Z.of_nat (length l)) by (apply Hd; reflexivity).
    rewrite wrap64_id by (unfold in_i64, two63 in *; lia).
    split; [exact Hr|]. split; [apply length_set_nth|].
    intros k. apply nth_set_nth. lia.
  - intros Hr. apply Hd in Hr. congruence.
Qed.

Lemma clampZ_range v lo hi : lo <= hi -> lo <= clampZ v lo hi <= hi.
Proof. unfold clampZ. intros H. destruct (v <? lo) eqn:E1; [|apply Z.ltb_ge in E1].
  - destruct (lo >? hi) eqn:E2; [apply Z.gtb_lt in E2; lia|lia].
  - destruct (v >? hi) eqn:E2; [lia|]. pose proof (Zgt_cases v hi) as G. rewrite E2 in G. lia.
Qed.

Lemma clampZ_id v lo hi : lo <= v <= hi -> clampZ v lo hi = v.
Proof. unfold clampZ. intros H. destruct (v <? lo) eqn:E1; [apply Z.ltb_lt in E1; lia|].
  destruct (v >? hi) eqn:E2; [apply Z.gtb_lt in E2; lia|reflexivity].
Qed.

Lemma clampZ_low v lo hi : lo <= hi -> v < lo -> clampZ v lo hi = lo.
Proof. unfold clampZ. intros H1 H2. replace (v <? lo) with true by (symmetry; apply Z.ltb_lt; lia).
  destruct (lo >? hi) eqn:E2; [apply Z.gtb_lt in E2; lia|reflexivity].
Qed.

Lemma clampZ_high v lo hi : lo <= hi -> hi < v -> clampZ v lo hi = hi.
Proof. unfold clampZ. intros H1 H2. replace (v <? lo) with false by (symmetry; apply Z.ltb_ge; lia).
  replace (v >? hi) with true by (symmetry; apply Z.gtb_lt; lia). reflexivity.
Qed.

(* list slice: empty list -> empty; otherwise both bounds are clamped into 1..len, crossed bounds
   are an error, and the result is exactly the elements at positions a..b (1-based, inclusive) *)
Lemma list_slice_spec {A} (l : list A) i1 i2 :
  Z.of_nat (length l) < two63 ->
  let len := Z.of_nat (length l) in
  let a := clampZ i1 1 len in
  let b := clampZ i2 1 len in
  match list_slice l i1 i2 with
  | SliceError => len > 0 /\ b < a
  | SliceOk r =>
    (len = 0 /\ r = []) \/
    (len > 0 /\ a <= b /\ r = firstn (Z.to_nat (b - a + 1)) (skipn (Z.to_nat (a - 1)) l) /\
     Z.of_nat (length r) = b - a + 1)
  end.
Proof.
  intros Hl len a b. unfold list_slice. fold len. fold a. fold b.
  destruct (len <=? 0) eqn:E0.
  - apply Z.leb_le in E0. left. split; [lia|reflexivity].
  - apply Z.leb_gt in E0.
    pose proof (clampZ_range i1 1 len ltac:(lia)) as Ha. fold a in Ha.
    pose proof (clampZ_range i2 1 len ltac:(lia)) as Hb. fold b in Hb.
    destruct (b <? a) eqn:E1.
    + apply Z.ltb_lt in E1. split; lia.
    + apply Z.ltb_ge in E1. right.
      rewrite (wrap64_id (a - 1)) by (unfold in_i64, two63 in *; lia).
      rewrite (wrap64_id (b - 1)) by (unfold in_i64, two63 in *; lia).
      rewrite (wrap64_id (b - 1 - (a - 1))) by (unfold in_i64, two63 in *; lia).
      rewrite (wrap64_id (b - 1 - (a - 1) + 1)) by (unfold in_i64, two63 in *; lia).
      replace (b - 1 - (a - 1) + 1) with (b - a + 1) by lia.
      split; [lia|]. split; [lia|]. split; [reflexivity|].
      rewrite firstn_length, skipn_length. unfold len in *. lia.
Qed.

Lemma list_slice_from_total {A} (l : list A) i :
  Z.of_nat (length l) < two63 -> list_slice_from l i <> SliceError.
Proof.
  intros Hl. unfold list_slice_from. pose proof (list_slice_spec l i (Z.of_nat (length l)) Hl) as H.
  cbv zeta in H. destruct (list_slice l i (Z.of_nat (length l))); [congruence|].
  destruct H as [Hp Hc]. rewrite (clampZ_id (Z.of_nat (length l)) 1) in Hc by lia.
  pose proof (clampZ_range i 1 (Z.of_nat (length l)) ltac:(lia)). lia.
Qed.

Lemma list_slice_to_total {A} (l : list A) i :
  Z.of_nat (length l) < two63 -> list_slice_to l i <> SliceError.
Proof.
  intros Hl. unfold list_slice_to. pose proof (list_slice_spec l 1 i Hl) as H.
  cbv zeta in H. destruct (list_slice l 1 i); [congruence|].
  destruct H as [Hp Hc]. rewrite (clampZ_id 1 1) in Hc by lia.
  pose proof (clampZ_range i 1 (Z.of_nat (length l)) ltac:(lia)). lia.
Qed.

(* inside the domain the two one-sided forms are skipn / firstn *)
Lemma list_slice_from_value {A} (l : list A) i :
  Z.of_nat (length l) < two63 -> 1 <= i <= Z.of_nat (length l) ->
  list_slice_from l i = SliceOk (skipn (Z.to_nat (i - 1)) l).
Proof.
  intros Hl Hr. unfold list_slice_from. pose proof (list_slice_spec l i (Z.of_nat (length l)) Hl) as H.
  cbv zeta in H. rewrite (clampZ_id i), (clampZ_id (Z.of_nat (length l))) in H by lia.
  destruct (list_slice l i (Z.of_nat (length l))) as [r|]; [|lia].
  destruct H as [[H0 _]|(_ & _ & -> & _)]; [lia|]. f_equal.
  apply firstn_all2. rewrite skipn_length. lia.
Qed.

Lemma list_slice_to_value {A} (l : list A) i :
  Z.of_nat (length l) < two63 -> 1 <= i <= Z.of_nat (length l) ->
  list_slice_to l i = SliceOk (firstn (Z.to_nat i) l).
Proof.
  intros Hl Hr. unfold list_slice_to. pose proof (list_slice_spec l 1 i Hl) as H.
  cbv zeta in H. rewrite (clampZ_id i), (clampZ_id 1) in H by lia.
  destruct (list_slice l 1 i) as [r|]; [|lia].
  destruct H as [[H0 _]|(_ & _ & -> & _)]; [lia|].
  replace (i - 1 + 1) with i by lia. reflexivity.
Qed.

(* Text index: Some exactly on 1..len, and then the i-th code point. cap >= len + 1 is C12's
   well-formedness (cap = bytes + 1 and every code point has >= 1 byte); the empty Text is {NULL,0} or an
   owned "\\0" of capacity 1 (Props/C12.v, C12_two_empty_texts), hence 0 <= cap <= 1 for it. *)
Lemma text_index_domain cap cps i :
  (cps <> [] -> Z.of_nat (length cps) + 1 <= cap) -> (cps = [] -> 0 <= cap <= 1) ->
  ((exists c, text_index cap cps i = Some c) <-> 1 <= i <= Z.of_nat (length cps)).
Proof.
  intros Hcap Hemp. unfold text_index.
  destruct (i <? 1) eqn:E1; [apply Z.ltb_lt in E1; split; [intros [c Hc]; discriminate Hc|lia]|].
  apply Z.ltb_ge in E1.
  destruct ((i >? cap) || (cap <=? 1)) eqn:E2.
  - split; [intros [c Hc]; discriminate Hc|]. intros Hr. apply orb_true_iff in E2.
    destruct cps as [|c0 r]; [cbn in Hr; lia|]. specialize (Hcap ltac:(discriminate)).
    destruct E2 as [E2|E2]; [apply Z.gtb_lt in E2|apply Z.leb_le in E2]; cbn [length] in *; lia.
  - split.
    + intros [c Hc]. assert (nth_error cps (Z.to_nat (i - 1)) <> None) as Hn by congruence.
      apply nth_error_Some in Hn. lia.
    + intros Hr. destruct (nth_error cps (Z.to_nat (i - 1))) eqn:En; [eauto|].
      apply nth_error_None in En. lia.
Qed.

Lemma text_index_value cap cps i c :
  text_index cap cps i = Some c -> nth_error cps (Z.to_nat (i - 1)) = Some c.
Proof.
  unfold text_index. destruct (i <? 1); [discriminate|]. destruct ((i >? cap) || (cap <=? 1)); [discriminate|auto].
Qed.

Lemma text_replace_domain cap cps i c :
  (cps <> [] -> Z.of_nat (length cps) + 1 <= cap) -> (cps = [] -> 0 <= cap <= 1) ->
  ((exists r, text_replace cap cps i c = Some r) <-> 1 <= i <= Z.of_nat (length cps)).
Proof.
  intros Hcap Hemp. unfold text_replace.
  destruct (i <? 1) eqn:E1; [apply Z.ltb_lt in E1; split; [intros [r Hr]; discriminate Hr|lia]|].
  apply Z.ltb_ge in E1.
  destruct ((i >? cap) || (cap <=? 1)) eqn:E2.
  - split; [intros [r Hr]; discriminate Hr|]. intros Hr. apply orb_true_iff in E2.
    destruct cps as [|c0 r]; [cbn in Hr; lia|]. specialize (Hcap ltac:(discriminate)).
    destruct E2 as [E2|E2]; [apply Z.gtb_lt in E2|apply Z.leb_le in E2]; cbn [length] in *; lia.
  - destruct (Z.to_nat (i - 1) <? length cps)%nat eqn:E3.
    + apply Nat.ltb_lt in E3. split; [lia|eauto].
    + apply Nat.ltb_ge in E3. split; [intros [r Hr]; discriminate Hr|lia].
Qed.

Lemma text_slice_spec cps i1 i2 :
  let len := Z.of_nat (length cps) in
  let a := clampZ i1 1 len in
  let b := clampZ i2 1 len in
  match text_slice cps i1 i2 with
  | SliceError => len > 0 /\ b < a
  | SliceOk r => (len = 0 /\ r = []) \/
                 (len > 0 /\ a <= b /\ r = firstn (Z.to_nat (b - a + 1)) (skipn (Z.to_nat (a - 1)) cps))
  end.
Proof.
  intros len a b. unfold text_slice. fold len. fold a. fold b.
  destruct (len <=? 0) eqn:E0.
  - apply Z.leb_le in E0. left. split; [lia|reflexivity].
  - apply Z.leb_gt in E0. destruct (b <? a) eqn:E1.
    + apply Z.ltb_lt in E1. split; lia.
    + apply Z.ltb_ge in E1. right. split; [lia|]. split; [lia|reflexivity].
Qed.

Lemma any_cast_domain {V} held target (v : V) :
  (any_cast held target v = None <-> held <> target) /\ (held = target -> any_cast held target v = Some v).
Proof.
  unfold any_cast. destruct (held =? target) eqn:E.
  - apply Z.eqb_eq in E. split; [split; [discriminate|congruence]|reflexivity].
  - apply Z.eqb_neq in E. split; [split; [auto|reflexivity]|congruence].
Qed.

Lemma todo_stops : todo_stmt = Laufzeitfehler 1.
Proof. reflexivity. Qed.

(* non-vacuity *)
Example idx_examples :
  idx_ok 3 1 = true /\ idx_ok 3 3 = true /\ idx_ok 3 0 = false /\ idx_ok 3 4 = false /\
  idx_ok 3 (-1) = false /\ idx_ok 3 (- two63) = false /\ idx_ok 0 1 = false /\ idx_ok 3 (two63 - 1) = false.
Proof. vm_compute. repeat split. Qed.
Example slice_examples :
  list_slice [10; 20; 30] 0 2 = SliceOk [10; 20] /\ list_slice [10; 20; 30] 2 99 = SliceOk [20; 30] /\
  list_slice [10; 20; 30] 3 2 = SliceError /\ list_slice (@nil Z) 3 2 = SliceOk [] /\
  list_slice [10; 20; 30] (-5) (-4) = SliceOk [10] /\ list_slice [10; 20; 30] 7 9 = SliceOk [30].
Proof. vm_compute. repeat split. Qed.
