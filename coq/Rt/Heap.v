(* The run-time allocation ledger (lib/runtime/source/DDP/memory.c:9-42).

   Every heap operation of a compiled program goes through
       void *ddp_reallocate(void *pointer, size_t oldSize, size_t newSize)
     newSize == 0          free(pointer), returns NULL      (oldSize is only trusted)
     oldSize == newSize    returns pointer unchanged
     otherwise             realloc(pointer, newSize)        (pointer == NULL acts as malloc)
   A ledger is the list of the calls a run made, (pointer, oldSize, newSize, result), in order
   (harness/c/shim.c records exactly these four numbers; 0 is the null pointer).

   SPEC  `balanced L`: replaying L from the empty heap never releases or resizes a block that is
   not live, every release/resize states the block's current size, the allocator never hands out
   a live or null block, and at the end no block is live.  The heap of the spec is a function
   block -> option size.

   CHECKER  `check_ledger` / `balancedb` replay the ledger over an association list; they are
   extracted and judge the REAL ledgers (HeapProofs.balancedb_correct: balancedb L = true <-> balanced L). *)
From Coq Require Import List NArith Bool.
Import ListNotations.
Open Scope N_scope.

Record event := Ev { e_ptr : N; e_old : N; e_new : N; e_res : N }.
Definition ledger := list event.

(* ---------------------------------------------------------------- specification *)
Definition hmap := N -> option N.
Definition hempty : hmap := fun _ => None.
Definition hset (h : hmap) (p : N) (v : option N) : hmap := fun q => if N.eqb q p then v else h q.

Inductive step : hmap -> event -> hmap -> Prop :=
| step_free_null : forall h,
    (* free(NULL): nothing is released; the null block has size 0 *)
    step h (Ev 0 0 0 0) h
| step_free : forall h p n,
    p <> 0 -> h p = Some n ->
    step h (Ev p n 0 0) (hset h p None)
| step_same : forall h p n,
    (* oldSize == newSize <> 0: the block is returned unchanged and must be live with that size *)
    p <> 0 -> n <> 0 -> h p = Some n ->
    step h (Ev p n n p) h
| step_alloc : forall h n r,
    n <> 0 -> r <> 0 -> h r = None ->
    step h (Ev 0 0 n r) (hset h r (Some n))
| step_realloc : forall h p o n r,
    p <> 0 -> h p = Some o -> o <> n -> n <> 0 -> r <> 0 -> hset h p None r = None ->
    step h (Ev p o n r) (hset (hset h p None) r (Some n)).

Inductive steps : hmap -> ledger -> hmap -> Prop :=
| steps_nil : forall h, steps h [] h
| steps_cons : forall h e h1 L h2, step h e h1 -> steps h1 L h2 -> steps h (e :: L) h2.

Definition balanced (L : ledger) : Prop :=
  exists h, steps hempty L h /\ forall p, h p = None.

(* ---------------------------------------------------------------- checker *)
Definition aheap := list (N * N).          (* live block -> size, no duplicate keys *)

Fixpoint alook (h : aheap) (p : N) : option N :=
  match h with
  | [] => None
  | (q, n) :: r => if N.eqb q p then Some n else alook r p
  end.
Fixpoint adel (h : aheap) (p : N) : aheap :=
  match h with
  | [] => []
  | (q, n) :: r => if N.eqb q p then adel r p else (q, n) :: adel r p
  end.

(* why an event is rejected (numbers are printed by the driver) *)
Inductive reason :=
| RNullSized        (* the null pointer is released/resized with a non-zero old size *)
| RNotLive          (* release/resize of a block that is not live (double free, wild pointer) *)
| RWrongSize        (* release/resize states a size that is not the block's current size *)
| RBadResult.       (* the recorded result is impossible (null or live block handed out, result of a free not null) *)

Definition astep (h : aheap) (e : event) : aheap + reason :=
  let '(Ev p o n r) := e in
  if N.eqb p 0 then
    if negb (N.eqb o 0) then inr RNullSized
    else if N.eqb n 0 then (if N.eqb r 0 then inl h else inr RBadResult)
    else if N.eqb r 0 then inr RBadResult
    else match alook h r with Some _ => inr RBadResult | None => inl ((r, n) :: h) end
  else
    match alook h p with
    | None => inr RNotLive
    | Some s =>
      if negb (N.eqb s o) then inr RWrongSize
      else if N.eqb n 0 then (if N.eqb r 0 then inl (adel h p) else inr RBadResult)
      else if N.eqb o n then (if N.eqb r p then inl h else inr RBadResult)
      else if N.eqb r 0 then inr RBadResult
      else match alook (adel h p) r with Some _ => inr RBadResult | None => inl ((r, n) :: adel h p) end
    end.

Inductive verdict :=
| Balanced
| BadEvent (index : N) (e : event) (why : reason)
| Leaked (blocks : aheap).       (* live at exit: (block, size) in reverse allocation order *)

Fixpoint areplay (h : aheap) (i : N) (L : ledger) : verdict :=
  match L with
  | [] => match h with [] => Balanced | _ => Leaked h end
  | e :: L' => match astep h e with
               | inl h' => areplay h' (N.succ i) L'
               | inr why => BadEvent i e why
               end
  end.

Definition check_ledger (L : ledger) : verdict := areplay [] 0 L.
Definition balancedb (L : ledger) : bool :=
  match check_ledger L with Balanced => true | _ => false end.

(* ---------------------------------------------------------------- readable consequences *)
(* an event creates block p (malloc or realloc result) / consumes block p (free or realloc source) *)
Definition creates (p : N) (e : event) : bool :=
  N.eqb (e_res e) p && negb (N.eqb (e_new e) 0) && negb (N.eqb (e_old e) (e_new e)).
Definition consumes (p : N) (e : event) : bool :=
  N.eqb (e_ptr e) p && negb (N.eqb (e_old e) (e_new e)).
Definition count (f : event -> bool) (L : ledger) : nat := length (filter f L).
