(* Proofs about the ledger checker: balancedb decides balanced; consequences of balanced. *)
From Coq Require Import List NArith Bool Lia.
Import ListNotations.
From DDP Require Import Rt.Heap.
Open Scope N_scope.

Definition repr (a : aheap) (h : hmap) : Prop :=
  NoDup (map fst a) /\ forall p, alook a p = h p.

Lemma repr_empty : repr [] hempty.
Proof. split; [constructor | reflexivity]. Qed.

Lemma alook_in : forall a p n, alook a p = Some n -> In p (map fst a).
Proof.
  induction a as [|[q m] a IH]; cbn [alook map fst]; intros p n H.
  - discriminate H.
  - destruct (N.eqb_spec q p) as [E|E].
    + left; exact E.
    + right; eapply IH; exact H.
Qed.

Lemma alook_notin : forall a p, ~ In p (map fst a) -> alook a p = None.
Proof.
  intros a p H. destruct (alook a p) eqn:E; [|reflexivity].
  exfalso; apply H; eapply alook_in; exact E.
Qed.

Lemma adel_in : forall a p q, In q (map fst (adel a p)) -> In q (map fst a) /\ q <> p.
Proof.
  induction a as [|[r m] a IH]; cbn [adel map fst]; intros p q H.
  - destruct H.
  - destruct (N.eqb_spec r p) as [E|E].
    + destruct (IH _ _ H) as [H1 H2]. split; [right; exact H1 | exact H2].
    + cbn [map fst] in H. destruct H as [H|H].
      * split; [left; exact H | congruence].
      * destruct (IH _ _ H) as [H1 H2]. split; [right; exact H1 | exact H2].
Qed.

Lemma adel_nodup : forall a p, NoDup (map fst a) -> NoDup (map fst (adel a p)).
Proof.
  induction a as [|[r m] a IH]; cbn [adel map fst]; intros p H.
  - constructor.
  - inversion H as [|x l Hn Hd]; subst.
    destruct (N.eqb_spec r p) as [E|E].
    + apply IH; exact Hd.
    + cbn [map fst]. constructor.
      * intro Hin. apply Hn. apply (adel_in _ _ _ Hin).
      * apply IH; exact Hd.
Qed.

Lemma alook_adel : forall a p q, alook (adel a p) q = if N.eqb q p then None else alook a q.
Proof.
  induction a as [|[r m] a IH]; cbn [adel alook]; intros p q.
  - destruct (N.eqb q p); reflexivity.
  - destruct (N.eqb_spec r p) as [E|E].
    + rewrite IH. destruct (N.eqb_spec q p) as [E2|E2]; [reflexivity|].
      destruct (N.eqb_spec r q) as [E3|E3]; [congruence | reflexivity].
    + cbn [alook]. destruct (N.eqb_spec r q) as [E3|E3].
      * destruct (N.eqb_spec q p) as [E2|E2]; [congruence | reflexivity].
      * apply IH.
Qed.

Lemma repr_del : forall a h p, repr a h -> repr (adel a p) (hset h p None).
Proof.
  intros a h p [Hn Hl]. split.
  - apply adel_nodup; exact Hn.
  - intro q. rewrite alook_adel. unfold hset. destruct (N.eqb q p); [reflexivity | apply Hl].
Qed.

Lemma repr_add : forall a h r n, repr a h -> h r = None -> repr ((r, n) :: a) (hset h r (Some n)).
Proof.
  intros a h r n [Hn Hl] Hr. split.
  - cbn [map fst]. constructor; [|exact Hn].
    intro Hin. destruct (alook a r) eqn:E.
    + rewrite Hl in E. congruence.
    + clear - Hin E. induction a as [|[q m] a IH]; cbn [map fst alook] in *.
      * destruct Hin.
      * destruct (N.eqb_spec q r) as [E2|E2]; [discriminate E|].
        destruct Hin as [Hin|Hin]; [congruence | apply IH; assumption].
  - intro q. cbn [alook]. unfold hset. rewrite (N.eqb_sym q r).
    destruct (N.eqb r q); [reflexivity | apply Hl].
Qed.

(* the checker accepts an event iff the spec has a step, and the results stay related *)
Lemma astep_sound : forall a h e a', repr a h -> astep a e = inl a' -> exists h', step h e h' /\ repr a' h'.
Proof.
  intros a h [p o n r] a' R H. pose proof R as [Rn Rl]. cbn [astep] in H.
  destruct (N.eqb_spec p 0) as [Ep|Ep].
  - subst p. destruct (N.eqb_spec o 0) as [Eo|Eo]; cbn [negb] in H; [|discriminate H]. subst o.
    destruct (N.eqb_spec n 0) as [En|En].
    + subst n. destruct (N.eqb_spec r 0) as [Er|Er]; [|discriminate H]. subst r.
      inversion H; subst a'. exists h. split; [constructor | exact R].
    + destruct (N.eqb_spec r 0) as [Er|Er]; [discriminate H|].
      destruct (alook a r) eqn:El; [discriminate H|]. inversion H; subst a'.
      exists (hset h r (Some n)). rewrite Rl in El. split.
      * apply step_alloc; assumption.
      * apply repr_add; assumption.
  - destruct (alook a p) as [s|] eqn:El; [|discriminate H].
    destruct (N.eqb_spec s o) as [Es|Es]; cbn [negb] in H; [|discriminate H]. subst s.
    rewrite Rl in El.
    destruct (N.eqb_spec n 0) as [En|En].
    + subst n. destruct (N.eqb_spec r 0) as [Er|Er]; [|discriminate H]. subst r.
      inversion H; subst a'. exists (hset h p None). split.
      * apply step_free; assumption.
      * apply repr_del; exact R.
    + destruct (N.eqb_spec o n) as [Eon|Eon].
      * subst o. destruct (N.eqb_spec r p) as [Er|Er]; [|discriminate H]. subst r.
        inversion H; subst a'. exists h. split; [apply step_same; assumption | exact R].
      * destruct (N.eqb_spec r 0) as [Er|Er]; [discriminate H|].
        destruct (alook (adel a p) r) eqn:El2; [discriminate H|]. inversion H; subst a'.
        pose proof (repr_del a h p R) as Rd. destruct Rd as [_ Rdl]. rewrite Rdl in El2.
        exists (hset (hset h p None) r (Some n)). split.
        -- apply step_realloc; assumption.
        -- apply repr_add; [apply repr_del; exact R | exact El2].
Qed.

Lemma astep_complete : forall a h e h', repr a h -> step h e h' -> exists a', astep a e = inl a' /\ repr a' h'.
Proof.
  intros a h e h' R S. pose proof R as [Rn Rl].
  destruct S as [h|h p n Hp Hl|h p n Hp Hn Hl|h n r Hn Hr Hl|h p o n r Hp Hl Hon Hn Hr Hl2]; cbn [astep].
  - exists a. split; [reflexivity | exact R].
  - destruct (N.eqb_spec p 0) as [E|_]; [congruence|]. rewrite Rl, Hl. rewrite N.eqb_refl. cbn [negb].
    cbn [N.eqb]. exists (adel a p). split; [reflexivity | apply repr_del; exact R].
  - destruct (N.eqb_spec p 0) as [E|_]; [congruence|]. rewrite Rl, Hl. rewrite N.eqb_refl. cbn [negb].
    destruct (N.eqb_spec n 0) as [E|_]; [congruence|]. rewrite N.eqb_refl.
    exists a. split; [reflexivity | exact R].
  - cbn [N.eqb negb]. destruct (N.eqb_spec n 0) as [E|_]; [congruence|].
    destruct (N.eqb_spec r 0) as [E|_]; [congruence|]. rewrite Rl, Hl.
    exists ((r, n) :: a). split; [reflexivity | apply repr_add; assumption].
  - destruct (N.eqb_spec p 0) as [E|_]; [congruence|]. rewrite Rl, Hl. rewrite N.eqb_refl. cbn [negb].
    destruct (N.eqb_spec n 0) as [E|_]; [congruence|].
    destruct (N.eqb_spec o n) as [E|_]; [congruence|].
    destruct (N.eqb_spec r 0) as [E|_]; [congruence|].
    pose proof (repr_del a h p R) as Rd. destruct Rd as [_ Rdl]. rewrite Rdl, Hl2.
    exists ((r, n) :: adel a p). split; [reflexivity | apply repr_add; [apply repr_del; exact R | exact Hl2]].
Qed.

Lemma areplay_sound : forall L a h i, repr a h -> areplay a i L = Balanced ->
  exists h', steps h L h' /\ forall p, h' p = None.
Proof.
  induction L as [|e L IH]; intros a h i R H; cbn [areplay] in H.
  - destruct a as [|x a]; [|discriminate H]. exists h. split; [constructor|].
    intro p. destruct R as [_ Rl]. rewrite <- Rl. reflexivity.
  - destruct (astep a e) as [a'|why] eqn:E; [|discriminate H].
    destruct (astep_sound _ _ _ _ R E) as [h1 [S1 R1]].
    destruct (IH _ _ _ R1 H) as [h2 [S2 Hall]].
    exists h2. split; [econstructor; eassumption | exact Hall].
Qed.

Lemma areplay_complete : forall L a h i h', repr a h -> steps h L h' -> (forall p, h' p = None) ->
  areplay a i L = Balanced.
Proof.
  induction L as [|e L IH]; intros a h i h' R S Hall; cbn [areplay].
  - inversion S; subst. destruct a as [|[q n] a]; [reflexivity|].
    destruct R as [_ Rl]. specialize (Rl q). cbn [alook] in Rl. rewrite N.eqb_refl in Rl.
    rewrite Hall in Rl. discriminate Rl.
  - inversion S as [|h0 e0 h1 L0 h2 S1 S2]; subst.
    destruct (astep_complete _ _ _ _ R S1) as [a' [E R1]]. rewrite E.
    eapply IH; eassumption.
Qed.

Theorem balancedb_correct : forall L, balancedb L = true <-> balanced L.
Proof.
  intro L. unfold balancedb, check_ledger, balanced. split.
  - intro H. destruct (areplay [] 0 L) eqn:E; try discriminate H.
    eapply areplay_sound; [apply repr_empty | exact E].
  - intros [h [S Hall]]. erewrite areplay_complete; [reflexivity | apply repr_empty | exact S | exact Hall].
Qed.

(* ------------------------------------------------------------------ consequences of balanced *)
(* "released exactly once": along a balanced ledger every block is created exactly as often as it
   is consumed; more precisely, at every point (#creations - #consumptions) of p is 1 if p is live
   and 0 otherwise. *)
Definition live01 (h : hmap) (p : N) : nat := match h p with Some _ => 1%nat | None => 0%nat end.

Lemma step_counts : forall h e h' p, p <> 0 -> (forall q n, h q = Some n -> n <> 0) -> step h e h' ->
  (live01 h p + (if creates p e then 1 else 0) = live01 h' p + (if consumes p e then 1 else 0))%nat
  /\ (forall q n, h' q = Some n -> n <> 0).
Proof.
  intros h e h' p Hp Hpos S.
  destruct S as [h|h q n Hq Hl|h q n Hq Hn Hl|h n r Hn Hr Hl|h q o n r Hq Hl Hon Hn Hr Hl2];
    unfold creates, consumes, live01; cbn [e_res e_new e_old e_ptr].
  - split; [|exact Hpos]. rewrite N.eqb_refl. cbn [negb]. rewrite !andb_false_r. lia.
  - split.
    + pose proof (Hpos _ _ Hl) as Hn0. unfold hset.
      destruct (N.eqb_spec 0 p) as [E|_]; [congruence|]. cbn [andb].
      destruct (N.eqb_spec q p) as [E|E].
      * subst q. rewrite N.eqb_refl. rewrite Hl. destruct (N.eqb_spec n 0); [contradiction|]. cbn. lia.
      * destruct (N.eqb_spec p q) as [E2|_]; [congruence|]. cbn [andb]. lia.
    + intros q0 n0. unfold hset. destruct (N.eqb q0 q); [discriminate | apply Hpos].
  - split; [|exact Hpos]. rewrite N.eqb_refl. cbn [negb]. rewrite !andb_false_r. lia.
  - split.
    + unfold hset. destruct (N.eqb_spec 0 p) as [E|_]; [congruence|]. cbn [andb].
      destruct (N.eqb_spec 0 n) as [E|_]; [congruence|]. destruct (N.eqb_spec n 0) as [E|_]; [congruence|].
      cbn [negb andb]. rewrite !andb_true_r.
      destruct (N.eqb_spec r p) as [E|E].
      * subst r. rewrite N.eqb_refl. rewrite Hl. lia.
      * destruct (N.eqb_spec p r) as [E2|_]; [congruence|]. lia.
    + intros q0 n0. unfold hset. destruct (N.eqb q0 r); [intro H; inversion H; subst; exact Hn | apply Hpos].
  - split.
    + unfold hset in *. destruct (N.eqb_spec n 0) as [E|_]; [congruence|].
      destruct (N.eqb_spec o n) as [E|_]; [congruence|]. cbn [negb]. rewrite !andb_true_r.
      destruct (N.eqb_spec p r) as [E1|E1]; destruct (N.eqb_spec p q) as [E2|E2].
      * subst. rewrite !N.eqb_refl. rewrite Hl. lia.
      * subst r. rewrite N.eqb_refl. destruct (N.eqb_spec q p) as [E3|_]; [congruence|].
        destruct (N.eqb_spec p q) as [E3|_] in Hl2; [congruence|]. rewrite Hl2. lia.
      * subst q. rewrite N.eqb_refl. destruct (N.eqb_spec r p) as [E3|_]; [congruence|]. rewrite Hl. lia.
      * destruct (N.eqb_spec r p) as [E3|_]; [congruence|]. destruct (N.eqb_spec q p) as [E3|_]; [congruence|]. lia.
    + intros q0 n0. unfold hset. destruct (N.eqb q0 r); [intro H; inversion H; subst; exact Hn|].
      destruct (N.eqb q0 q); [discriminate | apply Hpos].
Qed.

Lemma steps_counts : forall L h h' p, p <> 0 -> (forall q n, h q = Some n -> n <> 0) -> steps h L h' ->
  (live01 h p + count (creates p) L = live01 h' p + count (consumes p) L)%nat.
Proof.
  induction L as [|e L IH]; intros h h' p Hp Hpos S.
  - inversion S; subst. unfold count. cbn. lia.
  - inversion S as [|h0 e0 h1 L0 h2 S1 S2]; subst.
    destruct (step_counts _ _ _ p Hp Hpos S1) as [C Hpos1].
    specialize (IH _ _ p Hp Hpos1 S2). unfold count in *. cbn [filter].
    destruct (creates p e); destruct (consumes p e); cbn [length]; lia.
Qed.

(* every block is obtained exactly as often as it is released *)
Theorem balanced_released_once : forall L, balanced L ->
  forall p, p <> 0 -> count (creates p) L = count (consumes p) L.
Proof.
  intros L [h [S Hall]] p Hp.
  pose proof (steps_counts L hempty h p Hp) as C.
  assert (Hpos : forall q n, hempty q = Some n -> n <> 0) by (intros q n H; discriminate H).
  specialize (C Hpos S). unfold live01 in C. rewrite Hall in C. cbn in C. exact C.
Qed.

(* every prefix of a balanced ledger is replayable: no event releases/resizes a block that is not
   live or states a wrong size (the checker reports the first offending event otherwise) *)
Theorem balanced_no_bad_event : forall L, balanced L ->
  forall i e why, check_ledger L <> BadEvent i e why.
Proof.
  intros L HB i e why. apply balancedb_correct in HB. unfold balancedb in HB.
  destruct (check_ledger L); congruence.
Qed.
