(* Rt/Str.v — executable model of the text runtime of /repo:
     lib/runtime/source/DDP/utf8/utf8.c, operators.c (text part), ddptypes.c (text part),
     the compiler's text iteration (src/compiler/compiler.go, VisitForRangeStmt) and
     Schreibe_Text (lib/stdlib/source/DDP/io.c).
   Definitions only.  Conventions:
   * a byte is a Z in 0..255; a ddpchar / code point is a Z (int32 range);
   * a heap block is a list of bytes; the NULL pointer is the empty list (the runtime never
     allocates a block of size 0); a pointer into a block is a suffix of the list;
   * every read and write is bounds-checked: an access outside the block is the result OOB
     (undefined behaviour in C, an ASan report in the sanitised build);
   * freshly allocated / reallocated bytes hold [uninit] (-1) until written;
   * ddp_runtime_error (exit code 1, "Laufzeitfehler") is the result Err;
   * a value that C leaves uninitialised and then uses is Undef; a loop that does not terminate
     (in fewer than 2^64 iterations) is Stuck;
   * the libc codec c32rtomb / mbrtoc32 is a pair of section variables [enc] / [dec]. *)
From Coq Require Import List ZArith Bool.
Import ListNotations.
Open Scope Z_scope.

Inductive res (A : Type) : Type :=
| Ok (a : A)
| Err      (* ddp_runtime_error: Laufzeitfehler, exit status 1 *)
| OOB      (* access outside a block / through NULL *)
| Undef    (* use of an uninitialised value *)
| Stuck.   (* non-termination *)
Arguments Ok {A} a.
Arguments Err {A}.
Arguments OOB {A}.
Arguments Undef {A}.
Arguments Stuck {A}.

Definition bind {A B : Type} (r : res A) (f : A -> res B) : res B :=
  match r with
  | Ok a => f a
  | Err => Err
  | OOB => OOB
  | Undef => Undef
  | Stuck => Stuck
  end.
Notation "x <- e ;; k" := (bind e (fun x => k)) (at level 61, e at next level, right associativity).
Notation "' ( x , y ) <- e ;; k" := (bind e (fun p => let '(x, y) := p in k))
  (at level 61, e at next level, x name, y name, right associativity).

Record ddpstring : Type := mkstr { bytes : list Z; cap : Z }.
Definition empty_string : ddpstring := mkstr [] 0.          (* DDP_EMPTY_STRING = {NULL, 0} *)
(* the other empty Text: C code of the stdlib that builds a ddpstring by hand allocates strlen + 1 bytes also
   for the empty C string (env.c, string_builder.c, filesystem.c, strings.c, ...) *)
Definition owned_empty : ddpstring := mkstr [0] 1.
Definition is_null (s : ddpstring) : bool := match bytes s with [] => true | _ => false end.

Definition len (l : list Z) : Z := Z.of_nat (length l).
Definition uninit : Z := -1.

(* ---- checked memory primitives ------------------------------------------------------------ *)
Definition rd (l : list Z) (i : Z) : res Z :=
  if i <? 0 then OOB else match nth_error l (Z.to_nat i) with Some b => Ok b | None => OOB end.
(* pointer arithmetic p + i (forming a pointer outside the block is already an error) *)
Definition ptr (l : list Z) (i : Z) : res (list Z) :=
  if (i <? 0) || (len l <? i) then OOB else Ok (skipn (Z.to_nat i) l).
(* the n bytes at offset off *)
Definition sub (l : list Z) (off n : Z) : res (list Z) :=
  if (off <? 0) || (n <? 0) || (len l <? off + n) then OOB
  else Ok (firstn (Z.to_nat n) (skipn (Z.to_nat off) l)).
(* write d at offset off *)
Definition blit (l : list Z) (off : Z) (d : list Z) : res (list Z) :=
  if (off <? 0) || (len l <? off + len d) then OOB
  else Ok (firstn (Z.to_nat off) l ++ d ++ skipn (Z.to_nat (off + len d)) l).
Definition alloc (n : Z) : list Z := repeat uninit (Z.to_nat n).
Definition realloc (l : list Z) (n : Z) : list Z :=
  firstn (Z.to_nat n) l ++ repeat uninit (Z.to_nat n - length l).

Fixpoint list_eqb (a b : list Z) : bool :=
  match a, b with
  | [], [] => true
  | x :: a', y :: b' => (x =? y) && list_eqb a' b'
  | _, _ => false
  end.

(* ---- utf8.c ------------------------------------------------------------------------------- *)
(* the bit tests are transcribed literally; a byte is the unsigned value of the C char, the
   masks 0x80..0xf8 give the same answer on the sign-extended int *)
Definition utf8_is_continuation (c : Z) : bool := Z.land c 0xc0 =? 0x80.

Definition andr (a b : res bool) : res bool := x <- a ;; if x then b else Ok false.   (* C && *)

Definition utf8_is_single_byte (c : list Z) : res bool :=
  c0 <- rd c 0 ;; Ok (Z.land c0 0x80 =? 0).
Definition utf8_is_double_byte (c : list Z) : res bool :=
  andr (c0 <- rd c 0 ;; Ok (Z.land c0 0xe0 =? 0xc0))
       (c1 <- rd c 1 ;; Ok (utf8_is_continuation c1)).
Definition utf8_is_triple_byte (c : list Z) : res bool :=
  andr (c0 <- rd c 0 ;; Ok (Z.land c0 0xf0 =? 0xe0))
 (andr (c1 <- rd c 1 ;; Ok (utf8_is_continuation c1))
       (c2 <- rd c 2 ;; Ok (utf8_is_continuation c2))).
Definition utf8_is_quadruple_byte (c : list Z) : res bool :=
  andr (c0 <- rd c 0 ;; Ok (Z.land c0 0xf8 =? 0xf0))
 (andr (c1 <- rd c 1 ;; Ok (utf8_is_continuation c1))
 (andr (c2 <- rd c 2 ;; Ok (utf8_is_continuation c2))
       (c3 <- rd c 3 ;; Ok (utf8_is_continuation c3)))).

Definition utf8_indicated_num_bytes (c : Z) : Z :=
  if Z.land c 0x80 =? 0 then 1
  else if Z.land c 0xf0 =? 0xf0 then 4
  else if Z.land c 0xe0 =? 0xe0 then 3
  else if Z.land c 0xc0 =? 0xc0 then 2
  else 0.

(* utf8_strlen on a non-NULL pointer: counts the non-continuation bytes before the terminator *)
Fixpoint utf8_strlen_ptr (s : list Z) : res Z :=
  match s with
  | [] => OOB
  | b :: t => if b =? 0 then Ok 0
              else n <- utf8_strlen_ptr t ;; Ok (if utf8_is_continuation b then n else n + 1)
  end.
Definition utf8_strlen (s : list Z) : res Z :=
  match s with [] => Ok 0 | _ => utf8_strlen_ptr s end.

(* libc strlen *)
Fixpoint c_strlen (s : list Z) : res Z :=
  match s with
  | [] => OOB
  | b :: t => if b =? 0 then Ok 0 else n <- c_strlen t ;; Ok (n + 1)
  end.

(* the loop `while ( *it++ != 0 && len < 4) len++;`  — the byte is read before len is tested *)
Fixpoint nb_len (it : list Z) (n : Z) : res Z :=
  match it with
  | [] => OOB
  | b :: t => if b =? 0 then Ok n else if n <? 4 then nb_len t (n + 1) else Ok n
  end.

Definition utf8_num_bytes (s : list Z) : res Z :=
  match s with
  | [] => Ok 0                                            (* s == NULL *)
  | _ =>
    n <- nb_len s 0 ;;
    b1 <- andr (Ok (1 <=? n)) (utf8_is_single_byte s) ;;
    if b1 then Ok 1 else
    b2 <- andr (Ok (2 <=? n)) (utf8_is_double_byte s) ;;
    if b2 then Ok 2 else
    b3 <- andr (Ok (3 <=? n)) (utf8_is_triple_byte s) ;;
    if b3 then Ok 3 else
    b4 <- andr (Ok (4 <=? n)) (utf8_is_quadruple_byte s) ;;
    if b4 then Ok 4 else Ok 0
  end.

Definition utf8_num_bytes_char (c : Z) : Z :=         (* -1 stands for (size_t)-1 *)
  if c <? 0 then -1
  else if c <=? 127 then 1
  else if c <=? 2047 then 2
  else if (0xD800 <=? c) && (c <=? 0xDFFF) then -1
  else if c <=? 65535 then 3
  else if c <=? 0x10FFFF then 4
  else -1.

Section Codec.
  (* c32rtomb(s, c, &state): None = (size_t)-1, Some bs = the bytes written *)
  Variable enc : Z -> option (list Z).
  (* mbrtoc32(out, str, n, &state) on the n bytes given: Some c = *out written, None = untouched *)
  Variable dec : list Z -> option Z.

  (* utf8_char_to_string into a `char s[5]`: (number of bytes or -1, contents written).
     c32rtomb writes its bytes and the function adds the terminator: more than 4 bytes do not
     fit into the 5-byte buffers of all callers *)
  Definition utf8_char_to_string (c : Z) : res (Z * list Z) :=
    if utf8_num_bytes_char c =? -1 then Ok (-1, [])        (* not a Unicode scalar value: refused up front *)
    else
    match enc c with
    | None => Ok (-1, [])
    | Some bs => if 5 <? len bs + 1 then OOB else Ok (len bs, bs)
    end.

  (* utf8_string_to_char on a non-NULL pointer: (n, Some c) or (n, None) when *out stays unwritten *)
  Definition utf8_string_to_char (s : list Z) : res (Z * option Z) :=
    n <- utf8_num_bytes s ;;
    Ok (n, if n =? 0 then None else dec (firstn (Z.to_nat n) s)).

  (* operators.c, text_char_to_bytes: the bytes of c for storage in a Text; 0 bytes when c cannot be part
     of a Text (not a Unicode scalar value, or U+0000, the terminator) *)
  Definition text_char_to_bytes (c : Z) : res (Z * list Z) :=
    '(nb, temp) <- utf8_char_to_string c ;;
    if (nb <? 0) || (c =? 0) then Ok (0, temp) else Ok (nb, temp).

  (* ---- ddptypes.c ------------------------------------------------------------------------- *)
  (* str is a C string constant (a block that contains its terminator) *)
  Definition string_from_constant (str : list Z) : res ddpstring :=
    n <- c_strlen str ;;
    let size := n + 1 in
    if size =? 1 then Ok empty_string
    else d <- sub str 0 size ;; s <- blit (alloc size) 0 d ;; Ok (mkstr s size).

  Definition deep_copy_string (s : ddpstring) : res ddpstring :=
    if is_null s then Ok empty_string
    else d <- sub (bytes s) 0 (cap s) ;; c <- blit (alloc (cap s)) 0 d ;; Ok (mkstr c (cap s)).

  Definition string_empty (s : ddpstring) : res bool :=
    if is_null s then Ok true
    else if cap s <=? 0 then Ok true
    else b <- rd (bytes s) 0 ;; Ok (b =? 0).

  Definition ddp_strlen (s : ddpstring) : res Z :=
    if is_null s then Ok 0 else c_strlen (bytes s).

  (* ---- operators.c ------------------------------------------------------------------------ *)
  Definition string_length (s : ddpstring) : res Z :=
    e <- string_empty s ;;
    if e then Ok 0 else utf8_strlen (bytes s).

  (* the runtime error message is formatted with utf8_strlen(str->str) before the exit *)
  Definition index_error (s : ddpstring) {A : Type} : res A :=
    _ <- utf8_strlen (bytes s) ;; Err.

  (* `while (str->str[i] != 0 && len > 1) { i += utf8_num_bytes(str->str + i); len--; }`
     with fuel = len - 1; the byte at i is read once more than the body runs *)
  Fixpoint index_walk (blk : list Z) (i : Z) (fuel : nat) : res Z :=
    b <- rd blk i ;;
    match fuel with
    | O => Ok i
    | S f => if b =? 0 then Ok i
             else p <- ptr blk i ;; n <- utf8_num_bytes p ;; index_walk blk (i + n) f
    end.

  Definition string_index (s : ddpstring) (index : Z) : res Z :=
    if index <? 1 then Err
    else if (cap s <? index) || (cap s <=? 1) then index_error s
    else
      i <- index_walk (bytes s) 0 (Z.to_nat (index - 1)) ;;
      b <- rd (bytes s) i ;;
      if b =? 0 then index_error s
      else p <- ptr (bytes s) i ;;
           '(n, out) <- utf8_string_to_char p ;;
           match out with Some c => Ok c | None => Undef end.

  Definition replace_char_in_string (s : ddpstring) (ch : Z) (index : Z) : res ddpstring :=
    if index <? 1 then Err
    else if (cap s <? index) || (cap s <=? 1) then index_error s
    else
      let blk := bytes s in
      i <- index_walk blk 0 (Z.to_nat (index - 1)) ;;
      b <- rd blk i ;;
      if b =? 0 then index_error s
      else
        p <- ptr blk i ;;
        oldLen <- utf8_num_bytes p ;;
        '(newLen, newChar) <- text_char_to_bytes ch ;;
        if newLen =? 0 then Err            (* the character cannot be stored in a Text: Laufzeitfehler *)
        else if oldLen =? newLen then
          b1 <- blit blk i newChar ;; Ok (mkstr b1 (cap s))
        else if newLen <? oldLen then
          (* shrink in place, then give the surplus back: cap stays byte length + 1 *)
          b1 <- blit blk i newChar ;;
          tl <- sub b1 (i + oldLen) (cap s - i - oldLen) ;;
          b2 <- blit b1 (i + newLen) tl ;;
          let newCap := cap s - oldLen + newLen in
          Ok (mkstr (realloc b2 newCap) newCap)
        else
          let newCap := cap s - oldLen + newLen in
          pre <- sub blk 0 i ;;
          n1 <- blit (alloc newCap) 0 pre ;;
          n2 <- blit n1 i newChar ;;
          tl <- sub blk (i + oldLen) (cap s - i - oldLen) ;;
          n3 <- blit n2 (i + newLen) tl ;;
          Ok (mkstr n3 newCap).

  Definition clamp (i lo hi : Z) : Z :=
    let t := if i <? lo then lo else i in if hi <? t then hi else t.

  (* `while (str->str[i] != 0 && len != target) { ++len; i += utf8_indicated_num_bytes(str->str[i]); }` *)
  Fixpoint slice_walk (blk : list Z) (i n target : Z) (fuel : nat) : res (Z * Z) :=
    match fuel with
    | O => Stuck
    | S f =>
      b <- rd blk i ;;
      if (b =? 0) || (n =? target) then Ok (i, n)
      else slice_walk blk (i + utf8_indicated_num_bytes b) (n + 1) target f
    end.
  Definition slice_fuel (blk : list Z) (target : Z) : nat := S (length blk + Z.to_nat target).

  Definition string_slice (s : ddpstring) (index1 index2 : Z) : res ddpstring :=
    e <- string_empty s ;;
    if e then Ok empty_string
    else
      let blk := bytes s in
      start_length <- utf8_strlen blk ;;
      let index1 := clamp index1 1 start_length in
      let index2 := clamp index2 1 start_length in
      if index2 <? index1 then Err
      else
        let index1 := index1 - 1 in
        let index2 := index2 - 1 in
        '(i1, n) <- slice_walk blk 0 0 index1 (slice_fuel blk index1) ;;
        '(i2, _) <- slice_walk blk i1 n index2 (slice_fuel blk index2) ;;
        p <- ptr blk i2 ;;
        nb <- utf8_num_bytes p ;;
        let rcap := (i2 - i1) + 1 + nb in
        d <- sub blk i1 (rcap - 1) ;;
        r1 <- blit (alloc rcap) 0 d ;;
        r2 <- blit r1 (rcap - 1) [0] ;;
        Ok (mkstr r2 rcap).

  (* claim_string_or_empty: the result of a concatenation that adds nothing to str *)
  Definition claim_string_or_empty (s : ddpstring) : res ddpstring :=
    e <- string_empty s ;; if e then Ok empty_string else Ok s.

  (* str1 is consumed (its block is reallocated), str2 is only read *)
  Definition string_string_verkettet (s1 s2 : ddpstring) : res ddpstring :=
    e1 <- string_empty s1 ;;
    e2 <- string_empty s2 ;;
    if e1 && e2 then Ok empty_string
    else if e1 then deep_copy_string s2
    else if e2 then Ok s1
    else
      let rcap := cap s1 - 1 + cap s2 in
      let blk := realloc (bytes s1) rcap in
      d <- sub (bytes s2) 0 (cap s2) ;;
      r <- blit blk (cap s1 - 1) d ;;
      Ok (mkstr r rcap).

  Definition char_string_verkettet (c : Z) (s : ddpstring) : res ddpstring :=
    '(num_bytes, temp) <- text_char_to_bytes c ;;
    if num_bytes =? 0 then claim_string_or_empty s
    else
    e <- string_empty s ;;
    if e then string_from_constant (temp ++ [0])
    else
      let rcap := cap s + num_bytes in
      let blk := realloc (bytes s) rcap in
      d <- sub blk 0 (cap s) ;;
      r1 <- blit blk num_bytes d ;;
      r2 <- blit r1 0 temp ;;
      Ok (mkstr r2 rcap).

  Definition string_char_verkettet (s : ddpstring) (c : Z) : res ddpstring :=
    '(num_bytes, temp) <- text_char_to_bytes c ;;
    if num_bytes =? 0 then claim_string_or_empty s
    else
    e <- string_empty s ;;
    if e then string_from_constant (temp ++ [0])
    else
      let rcap := cap s + num_bytes in
      let blk := realloc (bytes s) rcap in
      r1 <- blit blk (cap s - 1) temp ;;
      r2 <- blit r1 (rcap - 1) [0] ;;
      Ok (mkstr r2 rcap).

  Definition char_to_string (c : Z) : res ddpstring :=
    '(num_bytes, temp) <- text_char_to_bytes c ;;
    if num_bytes =? 0 then Ok empty_string
    else
    r1 <- blit (alloc (num_bytes + 1)) 0 temp ;;
    r2 <- blit r1 num_bytes [0] ;;
    Ok (mkstr r2 (num_bytes + 1)).

  (* same = the two pointers are equal; the strlen bytes of both texts are compared (nothing is read when
     both are empty, whichever of the two empty representations they have) *)
  Definition string_equal (same : bool) (s1 s2 : ddpstring) : res bool :=
    if same then Ok true
    else
      l1 <- ddp_strlen s1 ;;
      l2 <- ddp_strlen s2 ;;
      if negb (l1 =? l2) then Ok false
      else if l1 =? 0 then Ok true
      else
        a <- sub (bytes s1) 0 l1 ;;
        b <- sub (bytes s2) 0 l1 ;;
        Ok (list_eqb a b).

  (* ---- casts emitted by the compiler (compiler.go, VisitCastExpr) --------------------------- *)
  Definition char_to_int (c : Z) : Z := c.                                   (* sext i32 -> i64 *)
  Definition int_to_char (z : Z) : Z := (z + 2^31) mod 2^32 - 2^31.          (* trunc i64 -> i32 *)

  (* ---- compiler.go, VisitForRangeStmt on a Text ---------------------------------------------
     iter_ptr runs from str to end_ptr = str + cap - 1 (compared with !=), each round decodes one
     character with utf8_string_to_char and advances by the returned width; the loop is skipped
     when cap == 0.  A returned width 0 leaves the pointer where it is: the loop never ends. *)
  Fixpoint iter_loop (blk : list Z) (p e : Z) (fuel : nat) : res (list Z) :=
    match fuel with
    | O => Stuck
    | S f =>
      if p =? e then Ok []
      else
        q <- ptr blk p ;;
        match q with
        | [] => OOB
        | _ =>
          '(n, out) <- utf8_string_to_char q ;;
          if n =? 0 then Stuck
          else match out with
               | None => Undef
               | Some c => rest <- iter_loop blk (p + n) e f ;; Ok (c :: rest)
               end
        end
    end.
  Definition string_iterate (s : ddpstring) : res (list Z) :=
    if cap s =? 0 then Ok [] else iter_loop (bytes s) 0 (cap s - 1) (S (length (bytes s))).

  (* ---- io.c: Schreibe_Text prints p1->str (or "") with "%s" ---------------------------------- *)
  Fixpoint c_string (s : list Z) : res (list Z) :=
    match s with
    | [] => OOB
    | b :: t => if b =? 0 then Ok [] else r <- c_string t ;; Ok (b :: r)
    end.
  Definition print_text (s : ddpstring) : res (list Z) :=
    if is_null s then Ok [] else c_string (bytes s).

  (* ---- histories over a register file --------------------------------------------------------- *)
  Inductive op : Type :=
  | OLit (r : nat) (bs : list Z)            (* r := text literal whose UTF-8 bytes are bs *)
  | OCopy (r a : nat)                       (* r := copy of a *)
  | OConcat (r a b : nat)                   (* r := a verkettet mit b *)
  | OConcatSC (r a : nat) (c : Z)           (* r := a verkettet mit Buchstabe c *)
  | OConcatCS (r : nat) (c : Z) (a : nat)   (* r := Buchstabe c verkettet mit a *)
  | OSlice (r a : nat) (i j : Z)            (* r := a im Bereich von i bis j *)
  | OCharToString (r : nat) (c : Z)         (* r := c als Text *)
  | OReplace (r : nat) (c : Z) (i : Z)      (* r an der Stelle i ist c *)
  | OEmptyOwned (r : nat)                   (* r := the empty Text {"\0", 1} returned by a C producer of the stdlib *)
  | OIndex (a : nat) (i : Z)                (* a an der Stelle i *)
  | OLength (a : nat)                       (* die Länge von a *)
  | OEqual (a b : nat)                      (* a gleich b *)
  | OIter (a : nat)                         (* Für jeden Buchstaben b in a *)
  | OPrint (a : nat).                       (* Schreibe den Text a *)

  Inductive obs : Type :=
  | VNone
  | VInt (z : Z)
  | VBool (b : bool)
  | VChars (l : list Z).

  Definition get {A : Type} (d : A) (st : list A) (r : nat) : A := nth r st d.
  Fixpoint upd {A : Type} (st : list A) (r : nat) (v : A) : list A :=
    match st, r with
    | [], _ => []
    | _ :: t, O => v :: t
    | x :: t, S r' => x :: upd t r' v
    end.

  Definition reg := get empty_string.

  (* operands of the consuming concatenations are copied first, as the compiler does for variables *)
  Definition step (st : list ddpstring) (o : op) : res (list ddpstring * obs) :=
    match o with
    | OLit r bs => v <- string_from_constant (bs ++ [0]) ;; Ok (upd st r v, VNone)
    | OCopy r a => v <- deep_copy_string (reg st a) ;; Ok (upd st r v, VNone)
    | OConcat r a b =>
        t <- deep_copy_string (reg st a) ;;
        v <- string_string_verkettet t (reg st b) ;; Ok (upd st r v, VNone)
    | OConcatSC r a c =>
        t <- deep_copy_string (reg st a) ;;
        v <- string_char_verkettet t c ;; Ok (upd st r v, VNone)
    | OConcatCS r c a =>
        t <- deep_copy_string (reg st a) ;;
        v <- char_string_verkettet c t ;; Ok (upd st r v, VNone)
    | OSlice r a i j => v <- string_slice (reg st a) i j ;; Ok (upd st r v, VNone)
    | OCharToString r c => v <- char_to_string c ;; Ok (upd st r v, VNone)
    | OReplace r c i => v <- replace_char_in_string (reg st r) c i ;; Ok (upd st r v, VNone)
    | OEmptyOwned r => Ok (upd st r owned_empty, VNone)
    | OIndex a i => c <- string_index (reg st a) i ;; Ok (st, VInt c)
    | OLength a => n <- string_length (reg st a) ;; Ok (st, VInt n)
    | OEqual a b => e <- string_equal (Nat.eqb a b) (reg st a) (reg st b) ;; Ok (st, VBool e)
    | OIter a => l <- string_iterate (reg st a) ;; Ok (st, VChars l)
    | OPrint a => l <- print_text (reg st a) ;; Ok (st, VChars l)
    end.

  (* observations of a history; the first failing operation ends it with its failure *)
  Fixpoint run (st : list ddpstring) (ops : list op) : list obs * res (list ddpstring) :=
    match ops with
    | [] => ([], Ok st)
    | o :: rest =>
      match step st o with
      | Ok (st', v) => let '(vs, fin) := run st' rest in (v :: vs, fin)
      | Err => ([], Err)
      | OOB => ([], OOB)
      | Undef => ([], Undef)
      | Stuck => ([], Stuck)
      end
    end.
End Codec.

Definition NREG : nat := 4.
Definition init_state : list ddpstring := repeat empty_string NREG.
