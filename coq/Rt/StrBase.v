(* Rt/StrBase.v — proofs, part 1: byte classification, memory primitives, the UTF-8 encoding:
   shape of every encoding, round trip of the concrete codec for every scalar value (range lemmas),
   completeness and soundness of [decode]. *)
From Coq Require Import List ZArith Bool Lia ZifyBool.
Import ListNotations.
From DDP Require Import Rt.Str Rt.StrSpec.
Open Scope Z_scope.

(* ---- a property of all 256 bytes, checked by enumeration ------------------------------------- *)
Lemma byte_cases (P : Z -> bool) :
  forallb P (map Z.of_nat (seq 0 256)) = true -> forall b, 0 <= b < 256 -> P b = true.
Proof.
  intros Hall b Hb. rewrite forallb_forall in Hall. apply Hall.
  apply in_map_iff. exists (Z.to_nat b). split; [lia|]. apply in_seq. lia.
Qed.

Definition lead_class (b : Z) : Z :=
  if b <? 0x80 then 1 else if b <? 0xC0 then 0 else if b <? 0xE0 then 2 else if b <? 0xF0 then 3 else 4.

Lemma land80_byte b : 0 <= b < 256 -> (Z.land b 0x80 =? 0) = (b <? 0x80).
Proof. intros H. apply Bool.eqb_prop. revert b H. apply byte_cases. vm_compute. reflexivity. Qed.
Lemma landE0_byte b : 0 <= b < 256 -> (Z.land b 0xe0 =? 0xc0) = ((0xC0 <=? b) && (b <? 0xE0)).
Proof. intros H. apply Bool.eqb_prop. revert b H. apply byte_cases. vm_compute. reflexivity. Qed.
Lemma landF0_byte b : 0 <= b < 256 -> (Z.land b 0xf0 =? 0xe0) = ((0xE0 <=? b) && (b <? 0xF0)).
Proof. intros H. apply Bool.eqb_prop. revert b H. apply byte_cases. vm_compute. reflexivity. Qed.
Lemma landF8_byte b : 0 <= b < 256 -> (Z.land b 0xf8 =? 0xf0) = ((0xF0 <=? b) && (b <? 0xF8)).
Proof. intros H. apply Bool.eqb_prop. revert b H. apply byte_cases. vm_compute. reflexivity. Qed.
Lemma cont_byte b : 0 <= b < 256 -> utf8_is_continuation b = contb b.
Proof. intros H. apply Bool.eqb_prop. revert b H. apply byte_cases. vm_compute. reflexivity. Qed.
Lemma indicated_byte b : 0 <= b < 256 -> utf8_indicated_num_bytes b = lead_class b.
Proof.
  intros H. apply Z.eqb_eq. revert b H. apply byte_cases. vm_compute. reflexivity.
Qed.

(* ---- lists and the checked memory primitives ------------------------------------------------------ *)
Lemma len_app a b : len (a ++ b) = len a + len b.
Proof. unfold len. rewrite app_length. lia. Qed.
Lemma len_cons x l : len (x :: l) = 1 + len l.
Proof. unfold len. cbn [length]. lia. Qed.
Lemma len_nil : len [] = 0.
Proof. reflexivity. Qed.
Lemma len_nonneg l : 0 <= len l.
Proof. unfold len. lia. Qed.
Lemma to_nat_len l : Z.to_nat (len l) = length l.
Proof. unfold len. lia. Qed.

Lemma rd_app a x b : rd (a ++ x :: b) (len a) = Ok x.
Proof.
  unfold rd. pose proof (len_nonneg a). destruct (len a <? 0) eqn:E; [lia|].
  rewrite to_nat_len, nth_error_app2 by lia. rewrite Nat.sub_diag. reflexivity.
Qed.
Lemma rd_0 x l : rd (x :: l) 0 = Ok x.
Proof. reflexivity. Qed.
Lemma rd_1 x y l : rd (x :: y :: l) 1 = Ok y.
Proof. reflexivity. Qed.
Lemma rd_2 x y z l : rd (x :: y :: z :: l) 2 = Ok z.
Proof. reflexivity. Qed.
Lemma rd_3 x y z w l : rd (x :: y :: z :: w :: l) 3 = Ok w.
Proof. reflexivity. Qed.

Lemma ptr_app a b : ptr (a ++ b) (len a) = Ok b.
Proof.
  unfold ptr. pose proof (len_nonneg a). pose proof (len_nonneg b). rewrite len_app.
  destruct ((len a <? 0) || (len a + len b <? len a)) eqn:E; [lia|].
  rewrite to_nat_len, skipn_app, skipn_all, Nat.sub_diag. reflexivity.
Qed.

Lemma firstn_len_app a b : firstn (Z.to_nat (len a)) (a ++ b) = a.
Proof. rewrite to_nat_len, firstn_app, Nat.sub_diag, firstn_all. cbn. apply app_nil_r. Qed.
Lemma skipn_len_app a b : skipn (Z.to_nat (len a)) (a ++ b) = b.
Proof. rewrite to_nat_len, skipn_app, Nat.sub_diag, skipn_all. reflexivity. Qed.

Lemma sub_app a b c : sub (a ++ b ++ c) (len a) (len b) = Ok b.
Proof.
  unfold sub. pose proof (len_nonneg a). pose proof (len_nonneg b). pose proof (len_nonneg c).
  rewrite !len_app.
  destruct ((len a <? 0) || (len b <? 0) || (len a + (len b + len c) <? len a + len b)) eqn:E; [lia|].
  rewrite skipn_len_app, firstn_len_app. reflexivity.
Qed.
Lemma sub_prefix b c : sub (b ++ c) 0 (len b) = Ok b.
Proof. exact (sub_app [] b c). Qed.
Lemma sub_all b : sub b 0 (len b) = Ok b.
Proof. rewrite <- (app_nil_r b) at 1. apply sub_prefix. Qed.

Lemma blit_app a b c d : len d = len b -> blit (a ++ b ++ c) (len a) d = Ok (a ++ d ++ c).
Proof.
  intros Hd. unfold blit. pose proof (len_nonneg a). pose proof (len_nonneg b). pose proof (len_nonneg c).
  rewrite !len_app.
  destruct ((len a <? 0) || (len a + (len b + len c) <? len a + len d)) eqn:E; [lia|].
  rewrite firstn_len_app. rewrite Hd, <- len_app.
  replace (skipn (Z.to_nat (len (a ++ b))) (a ++ b ++ c)) with c; [reflexivity|].
  rewrite (app_assoc a b c), skipn_len_app. reflexivity.
Qed.

Lemma alloc_add n m : 0 <= n -> 0 <= m -> alloc (n + m) = alloc n ++ alloc m.
Proof. intros. unfold alloc. rewrite Z2Nat.inj_add by lia. apply repeat_app. Qed.
Lemma len_alloc n : 0 <= n -> len (alloc n) = n.
Proof. intros. unfold alloc, len. rewrite repeat_length. lia. Qed.
Lemma alloc_0 : alloc 0 = [].
Proof. reflexivity. Qed.

(* writing d at the start of the still unwritten part of a fresh block *)
Lemma blit_fresh a n d : len d <= n -> blit (a ++ alloc n) (len a) d = Ok (a ++ d ++ alloc (n - len d)).
Proof.
  intros Hn. pose proof (len_nonneg d).
  replace n with (len d + (n - len d)) at 1 by lia.
  rewrite alloc_add by lia. apply blit_app. symmetry. apply len_alloc. lia.
Qed.
Lemma blit_fresh0 n d : len d <= n -> blit (alloc n) 0 d = Ok (d ++ alloc (n - len d)).
Proof. intros. exact (blit_fresh [] n d H). Qed.

Lemma realloc_grow l n : len l <= n -> realloc l n = l ++ alloc (n - len l).
Proof.
  intros. unfold realloc, alloc. rewrite firstn_all2 by (unfold len in *; lia).
  f_equal. f_equal. unfold len in *. lia.
Qed.

Lemma list_eqb_eq a b : list_eqb a b = true <-> a = b.
Proof.
  revert b. induction a as [|x a IH]; destruct b as [|y b]; cbn [list_eqb]; try (split; congruence).
  rewrite andb_true_iff, IH, Z.eqb_eq. split; [intros [-> ->]; reflexivity|intros [= -> ->]; auto].
Qed.
Lemma list_eqb_refl a : list_eqb a a = true.
Proof. apply list_eqb_eq. reflexivity. Qed.

(* ---- the encoding ---------------------------------------------------------------------------------- *)
Inductive shape : list Z -> Prop :=
| sh1 a : 1 <= a < 0x80 -> shape [a]
| sh2 a b : 0xC2 <= a < 0xE0 -> 0x80 <= b < 0xC0 -> shape [a; b]
| sh3 a b c : 0xE0 <= a < 0xF0 -> 0x80 <= b < 0xC0 -> 0x80 <= c < 0xC0 -> shape [a; b; c]
| sh4 a b c d : 0xF0 <= a < 0xF5 -> 0x80 <= b < 0xC0 -> 0x80 <= c < 0xC0 -> 0x80 <= d < 0xC0 -> shape [a; b; c; d].

Lemma tchar_range c : tchar c = true <-> (1 <= c < 0xD800 \/ 0xE000 <= c <= 0x10FFFF).
Proof. unfold tchar, scalarb. lia. Qed.

Lemma enc_shape c : tchar c = true -> shape (utf8_enc c).
Proof.
  intros H. apply tchar_range in H. unfold utf8_enc.
  destruct (c <? 0x80) eqn:E1; [constructor; lia|].
  destruct (c <? 0x800) eqn:E2; [constructor; Z.div_mod_to_equations; lia|].
  destruct (c <? 0x10000) eqn:E3; constructor; Z.div_mod_to_equations; lia.
Qed.

Lemma enc_len c : len (utf8_enc c) = cp_len c.
Proof.
  unfold utf8_enc, cp_len.
  destruct (c <? 0x80); [reflexivity|]. destruct (c <? 0x800); [reflexivity|].
  destruct (c <? 0x10000); reflexivity.
Qed.

Lemma shape_len bs : shape bs -> 1 <= len bs <= 4.
Proof. destruct 1; cbn; lia. Qed.
Lemma shape_bytes bs : shape bs -> Forall (fun b => 1 <= b < 256) bs.
Proof. destruct 1; repeat constructor; lia. Qed.
Lemma shape_head bs : shape bs -> exists a t, bs = a :: t /\ 1 <= a < 256 /\ lead_class a = len bs /\ lead_len a = length bs.
Proof.
  destruct 1; eexists; eexists; (split; [reflexivity|]); unfold lead_class, lead_len; cbn [len length];
    repeat split; try lia.
  all: repeat match goal with |- context [?x <? ?y] => destruct (x <? y) eqn:?; try lia end.
  all: try reflexivity; try lia.
Qed.

(* the concrete codec round-trips every scalar value: range lemmas on the four encodings *)
Lemma glibc_enc_scalar c : scalarb c = true -> glibc_enc c = Some (utf8_enc c).
Proof.
  intros H. unfold scalarb in H. unfold glibc_enc.
  destruct (c <? 0) eqn:E1; [lia|].
  destruct ((0xD800 <=? c) && (c <=? 0xDFFF)) eqn:E2; [lia|].
  destruct (c <? 0x200000) eqn:E3; [reflexivity|lia].
Qed.

Lemma glibc_dec_enc c : scalarb c = true -> glibc_dec (utf8_enc c) = Some c.
Proof.
  intros H. unfold scalarb in H. unfold utf8_enc.
  destruct (c <? 0x80) eqn:E1.
  { cbn [glibc_dec]. destruct ((0 <=? c) && (c <? 0x80)) eqn:E; [reflexivity|lia]. }
  destruct (c <? 0x800) eqn:E2.
  { cbn [glibc_dec]. unfold contb.
    match goal with |- (if ?g then _ else _) = _ => assert (Hg : g = true) by (Z.div_mod_to_equations; lia); rewrite Hg end.
    f_equal. Z.div_mod_to_equations; lia. }
  destruct (c <? 0x10000) eqn:E3.
  { cbn [glibc_dec]. unfold contb.
    match goal with |- (if ?g then _ else _) = _ => assert (Hg : g = true) by (Z.div_mod_to_equations; lia); rewrite Hg end.
    cbv zeta.
    match goal with |- (if ?g then _ else _) = _ => assert (Hg2 : g = false) by (Z.div_mod_to_equations; lia); rewrite Hg2 end.
    f_equal. Z.div_mod_to_equations; lia. }
  cbn [glibc_dec]. unfold contb.
  match goal with |- (if ?g then _ else _) = _ => assert (Hg : g = true) by (Z.div_mod_to_equations; lia); rewrite Hg end.
  cbv zeta.
  match goal with |- (if ?g then _ else _) = _ => assert (Hg2 : g = false) by (Z.div_mod_to_equations; lia); rewrite Hg2 end.
  f_equal. Z.div_mod_to_equations; lia.
Qed.

(* ---- texts: sequences of text characters ------------------------------------------------------------ *)
Definition tchars (cs : list Z) : Prop := forallb tchar cs = true.

Lemma tchars_cons c cs : tchars (c :: cs) <-> tchar c = true /\ tchars cs.
Proof. unfold tchars. cbn [forallb]. apply andb_true_iff. Qed.
Lemma tchars_app a b : tchars (a ++ b) <-> tchars a /\ tchars b.
Proof. unfold tchars. rewrite forallb_app. apply andb_true_iff. Qed.
Lemma tchars_nil : tchars [].
Proof. reflexivity. Qed.
Lemma tchar_scalar c : tchar c = true -> scalarb c = true.
Proof. unfold tchar. lia. Qed.

Lemma E_app a b : E (a ++ b) = E a ++ E b.
Proof. apply flat_map_app. Qed.
Lemma E_cons c cs : E (c :: cs) = utf8_enc c ++ E cs.
Proof. reflexivity. Qed.
Lemma E_one c : E [c] = utf8_enc c.
Proof. cbn. apply app_nil_r. Qed.

Lemma E_bytes cs : tchars cs -> Forall (fun b => 1 <= b < 256) (E cs).
Proof.
  induction cs as [|c cs IH]; intros H; [constructor|].
  apply tchars_cons in H. destruct H as [Hc Hcs]. rewrite E_cons. apply Forall_app. split; [|auto].
  apply shape_bytes, enc_shape, Hc.
Qed.

Lemma E_nonempty c cs : tchar c = true -> exists a t, E (c :: cs) = a :: t /\ 1 <= a < 256.
Proof.
  intros H. destruct (shape_head _ (enc_shape c H)) as (a & t & Ht & Ha & _).
  exists a, (t ++ E cs). rewrite E_cons, Ht. split; [reflexivity|lia].
Qed.

(* completeness: decoding the encoding of a text gives the text back *)
Lemma decode_all_E cs : forall fuel, tchars cs -> (length (E cs) <= fuel)%nat -> decode_all fuel (E cs) = Some cs.
Proof.
  induction cs as [|c cs IH]; intros fuel H Hf; [destruct fuel; reflexivity|].
  apply tchars_cons in H. destruct H as [Hc Hcs].
  destruct (shape_head _ (enc_shape c Hc)) as (a & t & Ht & Ha & _ & Hl).
  rewrite E_cons in *. rewrite app_length in Hf. rewrite Ht in Hl, Hf. cbn [length] in Hl, Hf.
  destruct fuel as [|f]; [lia|].
  assert (Hfirst : firstn (S (length t)) (utf8_enc c ++ E cs) = utf8_enc c).
  { rewrite Ht. rewrite <- (firstn_all (a :: t)) at 2. cbn [length]. rewrite firstn_app.
    replace (S (length t) - length (a :: t))%nat with 0%nat by (cbn [length]; lia).
    cbn [firstn]. rewrite app_nil_r. reflexivity. }
  assert (Hskip : skipn (S (length t)) (utf8_enc c ++ E cs) = E cs).
  { rewrite Ht. replace (S (length t)) with (length (a :: t)) by reflexivity.
    rewrite skipn_app, Nat.sub_diag, skipn_all. reflexivity. }
  rewrite Ht at 1. cbn [app decode_all]. rewrite Hl.
  replace (a :: t ++ E cs) with (utf8_enc c ++ E cs) by (rewrite Ht; reflexivity).
  rewrite Hfirst, Hskip, (glibc_dec_enc c (tchar_scalar c Hc)), Hc, (IH f Hcs) by lia. reflexivity.
Qed.
Lemma decode_E cs : tchars cs -> decode (E cs) = Some cs.
Proof. intros. apply decode_all_E; auto. Qed.

Lemma E_inj a b : tchars a -> tchars b -> E a = E b -> a = b.
Proof.
  intros Ha Hb H. pose proof (decode_E a Ha) as Da. rewrite H, (decode_E b Hb) in Da. congruence.
Qed.

(* soundness: whatever decodes is the encoding of the result *)
Lemma dec_sound bs c : glibc_dec bs = Some c -> tchar c = true -> bs = utf8_enc c.
Proof.
  intros D T. apply tchar_range in T. unfold glibc_dec, contb in D.
  destruct bs as [|a [|b [|c0 [|d [|? ?]]]]]; try discriminate D.
  - destruct ((0 <=? a) && (a <? 0x80)) eqn:G; [|discriminate D]. injection D as <-.
    unfold utf8_enc. destruct (a <? 0x80) eqn:E1; [reflexivity|lia].
  - match type of D with (if ?g then _ else _) = _ => destruct g eqn:G; [|discriminate D] end.
    injection D as <-. unfold utf8_enc.
    match goal with |- _ = (if ?x <? 0x80 then _ else _) => destruct (x <? 0x80) eqn:E1; [lia|] end.
    match goal with |- _ = (if ?x <? 0x800 then _ else _) => destruct (x <? 0x800) eqn:E2; [|lia] end.
    f_equal; [|f_equal]; Z.div_mod_to_equations; lia.
  - match type of D with (if ?g then _ else _) = _ => destruct g eqn:G; [|discriminate D] end.
    cbv zeta in D.
    match type of D with (if ?g then _ else _) = _ => destruct g eqn:G2; [discriminate D|] end.
    injection D as <-. unfold utf8_enc.
    match goal with |- _ = (if ?x <? 0x80 then _ else _) => destruct (x <? 0x80) eqn:E1; [lia|] end.
    match goal with |- _ = (if ?x <? 0x800 then _ else _) => destruct (x <? 0x800) eqn:E2; [lia|] end.
    match goal with |- _ = (if ?x <? 0x10000 then _ else _) => destruct (x <? 0x10000) eqn:E3; [|lia] end.
    f_equal; [|f_equal; [|f_equal]]; Z.div_mod_to_equations; lia.
  - match type of D with (if ?g then _ else _) = _ => destruct g eqn:G; [|discriminate D] end.
    cbv zeta in D.
    match type of D with (if ?g then _ else _) = _ => destruct g eqn:G2; [discriminate D|] end.
    injection D as <-. unfold utf8_enc.
    match goal with |- _ = (if ?x <? 0x80 then _ else _) => destruct (x <? 0x80) eqn:E1; [lia|] end.
    match goal with |- _ = (if ?x <? 0x800 then _ else _) => destruct (x <? 0x800) eqn:E2; [lia|] end.
    match goal with |- _ = (if ?x <? 0x10000 then _ else _) => destruct (x <? 0x10000) eqn:E3; [lia|] end.
    f_equal; [|f_equal; [|f_equal; [|f_equal]]]; Z.div_mod_to_equations; lia.
Qed.

Lemma decode_all_sound : forall fuel l cs, decode_all fuel l = Some cs -> l = E cs /\ tchars cs.
Proof.
  induction fuel as [|f IH]; intros l cs D.
  - destruct l; cbn in D; [injection D as <-; split; reflexivity|discriminate D].
  - destruct l as [|a t]; [cbn in D; injection D as <-; split; reflexivity|].
    cbn [decode_all] in D.
    destruct (lead_len a) as [|n] eqn:L; [discriminate D|].
    destruct (glibc_dec (firstn (S n) (a :: t))) as [c|] eqn:G; [|discriminate D].
    destruct (tchar c) eqn:T; [|discriminate D].
    destruct (decode_all f (skipn (S n) (a :: t))) as [r|] eqn:R; [|discriminate D].
    injection D as <-. destruct (IH _ _ R) as [Hr Tr].
    apply dec_sound in G; [|exact T]. split.
    + rewrite E_cons, <- G, <- Hr. symmetry. apply firstn_skipn.
    + apply tchars_cons. split; assumption.
Qed.
Lemma decode_sound l cs : decode l = Some cs -> l = E cs /\ tchars cs.
Proof. apply decode_all_sound. Qed.
