(* Rt/StrBounds.v — composition of C12 with C06: on every well-formed text the byte-level operations of
   the runtime model (Rt/Str.v) decide their domain exactly as the code-point-level statements of
   Rt/Bounds.v (text_index, text_replace, text_slice) and return the same values.  C06's hypothesis
   "cap >= length + 1, cap = 0 for the empty text" is a consequence of [repr]. *)
From Coq Require Import List ZArith Bool Lia ZifyBool.
Import ListNotations.
From DDP Require Import Rt.Str Rt.StrSpec Rt.StrBase Rt.StrUtf8 Rt.StrOps Rt.StrOps2 Rt.StrOps3 Rt.StrHistory Rt.Bounds.
Open Scope Z_scope.

Definition of_option {A} (o : option A) : res A := match o with Some a => Ok a | None => Err end.
Definition of_slice (r : slice_result Z) : res (list Z) := match r with SliceOk l => Ok l | SliceError => Err end.

(* the capacity hypotheses of Props/C06.v follow from the representation invariant *)
Lemma repr_cap_bounds s cs : repr s cs ->
  (cs <> [] -> Z.of_nat (length cs) + 1 <= cap s) /\ (cs = [] -> cap s = 0 \/ cap s = 1).
Proof.
  intros H. pose proof (wf_cap _ _ H) as W. split.
  - intros N. destruct cs as [|c cs]; [congruence|]. rewrite W.
    pose proof (clen_le_len_E _ (repr_tchars _ _ H)). unfold clen in *. lia.
  - intros ->. exact W.
Qed.

Lemma nth_error_nth (l : list Z) n : (n < length l)%nat -> nth_error l n = Some (nth n l 0).
Proof. revert n. induction l as [|x l IH]; intros [|n] H; cbn in *; try lia; auto. apply IH. lia. Qed.

Lemma set_nth_split (l : list Z) n v : (n < length l)%nat -> set_nth l n v = firstn n l ++ v :: skipn (S n) l.
Proof. revert n. induction l as [|x l IH]; intros [|n] H; cbn in *; try lia; auto. f_equal. apply IH. lia. Qed.

Lemma s_index_text_index s cs i : repr s cs -> s_index cs i = of_option (text_index (cap s) cs i).
Proof.
  intros H. destruct (repr_cap_bounds _ _ H) as [Hne Hemp]. unfold s_index, text_index, clen.
  destruct (i <? 1) eqn:I1; [replace ((1 <=? i) && (i <=? Z.of_nat (length cs))) with false by lia; reflexivity|].
  destruct cs as [|c cs].
  { replace ((i >? cap s) || (cap s <=? 1)) with true by (destruct (Hemp eq_refl); lia).
    replace ((1 <=? i) && (i <=? Z.of_nat (length (@nil Z)))) with false by (cbn [length]; lia). reflexivity. }
  assert (Hc : Z.of_nat (length (c :: cs)) + 1 <= cap s) by (apply Hne; discriminate).
  destruct ((i >? cap s) || (cap s <=? 1)) eqn:G.
  { replace ((1 <=? i) && (i <=? Z.of_nat (length (c :: cs)))) with false by (cbn [length] in *; lia). reflexivity. }
  destruct ((1 <=? i) && (i <=? Z.of_nat (length (c :: cs)))) eqn:R.
  - rewrite nth_error_nth by lia. reflexivity.
  - replace (nth_error (c :: cs) (Z.to_nat (i - 1))) with (@None Z); [reflexivity|].
    symmetry. apply nth_error_None. lia.
Qed.

Lemma s_replace_text_replace s cs i c : repr s cs -> s_replace cs c i = of_option (text_replace (cap s) cs i c).
Proof.
  intros H. destruct (repr_cap_bounds _ _ H) as [Hne Hemp]. unfold s_replace, text_replace, clen.
  destruct (i <? 1) eqn:I1; [replace ((1 <=? i) && (i <=? Z.of_nat (length cs))) with false by lia; reflexivity|].
  destruct cs as [|c0 cs].
  { replace ((i >? cap s) || (cap s <=? 1)) with true by (destruct (Hemp eq_refl); lia).
    replace ((1 <=? i) && (i <=? Z.of_nat (length (@nil Z)))) with false by (cbn [length]; lia). reflexivity. }
  assert (Hc : Z.of_nat (length (c0 :: cs)) + 1 <= cap s) by (apply Hne; discriminate).
  destruct ((i >? cap s) || (cap s <=? 1)) eqn:G.
  { replace ((1 <=? i) && (i <=? Z.of_nat (length (c0 :: cs)))) with false by (cbn [length] in *; lia). reflexivity. }
  destruct ((1 <=? i) && (i <=? Z.of_nat (length (c0 :: cs)))) eqn:R.
  - replace (Z.to_nat (i - 1) <? length (c0 :: cs))%nat with true by lia.
    cbn [of_option]. rewrite set_nth_split by lia. replace (S (Z.to_nat (i - 1))) with (Z.to_nat i) by lia. reflexivity.
  - replace (Z.to_nat (i - 1) <? length (c0 :: cs))%nat with false by lia. reflexivity.
Qed.

Lemma clamp_clampZ v lo hi : clamp v lo hi = clampZ v lo hi.
Proof. unfold clamp, clampZ. destruct (v <? lo); [destruct (hi <? lo) eqn:A, (lo >? hi) eqn:B; lia || reflexivity|destruct (hi <? v) eqn:A, (v >? hi) eqn:B; lia || reflexivity]. Qed.

Lemma s_slice_text_slice cs i j : s_slice cs i j = of_slice (text_slice cs i j).
Proof.
  unfold s_slice, text_slice. destruct cs as [|c cs]; [reflexivity|].
  replace (Z.of_nat (length (c :: cs)) <=? 0) with false by (cbn [length]; lia).
  unfold clen. rewrite !clamp_clampZ. cbv zeta.
  destruct (clampZ j 1 (Z.of_nat (length (c :: cs))) <? clampZ i 1 (Z.of_nat (length (c :: cs)))); reflexivity.
Qed.

Section WithCodec.
  Variable enc : Z -> option (list Z).
  Variable dec : list Z -> option Z.
  Hypothesis codec : codec_ok enc dec.

  Lemma index_matches_bounds s cs i :
    repr s cs -> string_index dec s i = of_option (text_index (cap s) cs i).
  Proof.
    intros H. rewrite (string_index_repr dec (fun c Hc => proj2 codec c (tchar_scalar c Hc)) s cs i H).
    apply s_index_text_index, H.
  Qed.

  Lemma replace_matches_bounds s cs ch i :
    repr s cs -> tchar ch = true ->
    rres (replace_char_in_string enc s ch i) (of_option (text_replace (cap s) cs i ch)).
  Proof.
    intros H Hc. rewrite <- (s_replace_text_replace s cs i ch H).
    exact (replace_char_repr enc (proj1 codec) s cs ch i H Hc).
  Qed.
End WithCodec.

Lemma slice_matches_bounds s cs i j : repr s cs -> rres (string_slice s i j) (of_slice (text_slice cs i j)).
Proof. intros H. rewrite <- s_slice_text_slice. apply string_slice_repr, H. Qed.
