(* Rt/StrHistory.v — proofs, part 6: the abstraction function, the simulation of one operation,
   its lifting to histories, the casts, the concrete codec, and two counterexamples: U+0000, and the
   replacement by a shorter character as the runtime did it before /repo commit 629848a (Rt/StrOld.v). *)
From Coq Require Import List ZArith Bool Lia ZifyBool.
Import ListNotations.
From DDP Require Import Rt.Str Rt.StrSpec Rt.StrOld Rt.StrBase Rt.StrUtf8 Rt.StrOps Rt.StrOps2 Rt.StrOps3.
Open Scope Z_scope.

(* the codec assumptions: standard UTF-8 on every Unicode scalar value *)
Definition codec_ok (enc : Z -> option (list Z)) (dec : list Z -> option Z) : Prop :=
  (forall c, scalarb c = true -> enc c = Some (utf8_enc c)) /\
  (forall c, scalarb c = true -> dec (utf8_enc c) = Some c).

Lemma glibc_codec_ok : codec_ok glibc_enc glibc_dec.
Proof. split; [exact glibc_enc_scalar|exact glibc_dec_enc]. Qed.

(* ---- abstraction ------------------------------------------------------------------------------------ *)
Lemma repr_cps s cs : repr s cs -> cps s = Some cs.
Proof.
  intros H. destruct cs as [|c cs]; [destruct (repr_nil _ H) as [-> | ->]; reflexivity|].
  pose proof (repr_tchars _ _ H) as T. rewrite (repr_open _ _ _ H). unfold cps. rewrite is_null_block. cbn [bytes].
  rewrite c_string_nz by (apply E_bytes, T). apply decode_E, T.
Qed.
Lemma repr_wf_cps s cs : repr s cs <-> wf s /\ cps s = Some cs.
Proof.
  split.
  - intros H. split; [exists cs; exact H|apply repr_cps, H].
  - intros [[cs' H'] Hc]. rewrite (repr_cps _ _ H') in Hc. injection Hc as <-. exact H'.
Qed.
Lemma repr_fun s cs1 cs2 : repr s cs1 -> repr s cs2 -> cs1 = cs2.
Proof. intros H1 H2. apply repr_cps in H1, H2. congruence. Qed.
Lemma wf_cap s cs : repr s cs -> match cs with [] => cap s = 0 \/ cap s = 1 | _ => cap s = len (E cs) + 1 end.
Proof.
  intros H. destruct cs; [destruct (repr_nil _ H) as [-> | ->]; [left|right]; reflexivity|rewrite (repr_open _ _ _ H); reflexivity].
Qed.
(* what well-formedness means for the capacity: exactly the C string length plus one *)
Lemma wf_strlen s : wf s -> is_null s = false -> c_strlen (bytes s) = Ok (cap s - 1).
Proof.
  intros [cs H] N. destruct cs as [|c cs]; [destruct (repr_nil _ H) as [-> | ->]; [discriminate N|reflexivity]|].
  rewrite (repr_open _ _ _ H). cbn [bytes cap]. rewrite c_strlen_nz by (apply E_bytes, (repr_tchars _ _ H)).
  f_equal. lia.
Qed.

(* ---- casts ------------------------------------------------------------------------------------------------ *)
Lemma cast_roundtrip_char c : scalarb c = true -> int_to_char (char_to_int c) = c.
Proof. unfold scalarb, int_to_char, char_to_int. intros H. rewrite Z.mod_small by lia. lia. Qed.
Lemma cast_roundtrip_int z : -2^31 <= z < 2^31 -> char_to_int (int_to_char z) = z.
Proof. unfold int_to_char, char_to_int. intros H. rewrite Z.mod_small by lia. lia. Qed.

(* ---- one operation ----------------------------------------------------------------------------------------- *)
Definition srel (st : list ddpstring) (sst : list (list Z)) : Prop := Forall2 repr st sst.

Lemma reg_rel st sst r : srel st sst -> repr (reg st r) (sreg sst r).
Proof.
  intros H. revert r. induction H as [|s cs st sst Hs Hst IH]; intros r.
  - destruct r; apply repr_empty.
  - destruct r as [|r]; [exact Hs|apply IH].
Qed.
Lemma upd_rel st sst r v cs : srel st sst -> repr v cs -> srel (upd st r v) (upd sst r cs).
Proof.
  intros H Hv. revert r. induction H as [|s cs0 st sst Hs Hst IH]; intros r; [constructor|].
  destruct r as [|r]; cbn [upd]; constructor; auto. apply IH.
Qed.
Lemma init_rel : srel init_state sinit.
Proof. repeat constructor; apply repr_empty. Qed.

Definition step_rel (r : res (list ddpstring * obs)) (e : res (list (list Z) * obs)) : Prop :=
  match r, e with
  | Ok (st', v), Ok (sst', v') => srel st' sst' /\ v = v'
  | Err, Err => True
  | _, _ => False
  end.

Definition text_guard (st : list (list Z)) (o : op) : bool := in_text o.

Section WithCodec.
  Variable enc : Z -> option (list Z).
  Variable dec : list Z -> option Z.
  Hypothesis codec : codec_ok enc dec.

  Let enc_ok : forall c, scalarb c = true -> enc c = Some (utf8_enc c).
  Proof. exact (proj1 codec). Qed.
  Let dec_ok : forall c, tchar c = true -> dec (utf8_enc c) = Some c.
  Proof. intros c H. apply (proj2 codec), tchar_scalar, H. Qed.

  Ltac producer R :=
    match type of R with
    | rres ?x _ => destruct x as [v| | | |]; cbn [rres] in R; try contradiction; cbn [bind step_rel]
    end.

  Lemma step_refines st sst o :
    srel st sst -> text_guard sst o = true -> step_rel (step enc dec st o) (sstep sst o).
  Proof.
    intros Hrel Gt. unfold text_guard in Gt.
    destruct o as [r bs|r a|r a b|r a c|r c a|r a i j|r c|r c i|r|a i|a|a b|a|a]; cbn [step sstep in_text] in *.
    - destruct (decode bs) as [cs|] eqn:D; [|discriminate Gt]. apply decode_sound in D. destruct D as [-> T].
      pose proof (from_constant_repr cs T) as R. producer R. split; [apply upd_rel; assumption|reflexivity].
    - rewrite (deep_copy_repr _ _ (reg_rel _ _ a Hrel)). cbn [bind step_rel].
      split; [apply upd_rel; [assumption|apply reg_rel, Hrel]|reflexivity].
    - rewrite (deep_copy_repr _ _ (reg_rel _ _ a Hrel)). cbn [bind].
      pose proof (string_string_verkettet_repr _ _ _ _ (reg_rel _ _ a Hrel) (reg_rel _ _ b Hrel)) as R.
      producer R. split; [apply upd_rel; assumption|reflexivity].
    - rewrite (deep_copy_repr _ _ (reg_rel _ _ a Hrel)). cbn [bind].
      pose proof (string_char_verkettet_all enc enc_ok _ _ c (reg_rel _ _ a Hrel)) as R.
      producer R. split; [apply upd_rel; assumption|reflexivity].
    - rewrite (deep_copy_repr _ _ (reg_rel _ _ a Hrel)). cbn [bind].
      pose proof (char_string_verkettet_all enc enc_ok c _ _ (reg_rel _ _ a Hrel)) as R.
      producer R. split; [apply upd_rel; assumption|reflexivity].
    - pose proof (string_slice_repr _ _ i j (reg_rel _ _ a Hrel)) as R.
      destruct (string_slice (reg st a) i j) as [v| | | |], (s_slice (sreg sst a) i j) as [w| | | |];
        cbn [rres] in R; try contradiction; cbn [bind step_rel]; auto.
      split; [apply upd_rel; assumption|reflexivity].
    - pose proof (char_to_string_all enc enc_ok c) as R. producer R.
      split; [apply upd_rel; assumption|reflexivity].
    - pose proof (replace_char_all enc enc_ok _ _ c i (reg_rel _ _ r Hrel)) as R.
      destruct (replace_char_in_string enc (reg st r) c i) as [v| | | |], (if tchar c then s_replace (sreg sst r) c i else Err) as [w| | | |];
        cbn [rres] in R; try contradiction; cbn [bind step_rel]; auto.
      split; [apply upd_rel; assumption|reflexivity].
    - cbn [step_rel]. split; [apply upd_rel; [assumption|apply repr_owned_empty]|reflexivity].
    - rewrite (string_index_repr dec dec_ok _ _ i (reg_rel _ _ a Hrel)).
      unfold s_index. destruct ((1 <=? i) && (i <=? clen (sreg sst a))); cbn [bind step_rel]; auto.
    - rewrite (string_length_repr _ _ (reg_rel _ _ a Hrel)). cbn [bind step_rel]. auto.
    - rewrite (string_equal_repr _ _ _ _ _ (reg_rel _ _ a Hrel) (reg_rel _ _ b Hrel)).
      + cbn [bind step_rel]. auto.
      + intros E0. apply Nat.eqb_eq in E0. subst b. reflexivity.
    - rewrite (string_iterate_repr dec dec_ok _ _ (reg_rel _ _ a Hrel)). cbn [bind step_rel]. auto.
    - rewrite (print_text_repr _ _ (reg_rel _ _ a Hrel)). cbn [bind step_rel]. auto.
  Qed.

  (* ---- histories -------------------------------------------------------------------------------------------- *)
  Definition fin_rel (r : res (list ddpstring)) (e : res (list (list Z))) : Prop :=
    match r, e with
    | Ok st, Ok sst => srel st sst
    | Err, Err => True
    | _, _ => False
    end.

  Lemma history_refines ops : forall st sst,
    srel st sst -> along text_guard sst ops = true ->
    fst (run enc dec st ops) = fst (srun sst ops) /\ fin_rel (snd (run enc dec st ops)) (snd (srun sst ops)).
  Proof.
    induction ops as [|o ops IH]; intros st sst Hrel G.
    - cbn. auto.
    - cbn [along] in G. apply andb_true_iff in G. destruct G as [Go Grest].
      pose proof (step_refines st sst o Hrel Go) as S. cbn [run srun].
      destruct (step enc dec st o) as [[st' v]| | | |], (sstep sst o) as [[sst' v']| | | |];
        cbn [step_rel] in S; try contradiction; try (cbn; auto; fail).
      destruct S as [Hrel' <-]. specialize (IH st' sst' Hrel' Grest).
      destruct (run enc dec st' ops) as [vs fin], (srun sst' ops) as [vs' fin']. cbn [fst snd] in *.
      destruct IH as [-> Hf]. auto.
  Qed.
End WithCodec.

(* ---- why the reallocation in the shrink branch is needed (the definition before the fix) --------------------- *)
(* "äb" with 'a' stored at position 1 kept capacity 4 for a text of 2 bytes; the concatenation with "X"
   then copied behind the embedded terminator and the text printed was still "ab" *)
Definition shrunk_example : ddpstring := mkstr [97; 98; 0; 0] 4.
Lemma shrunk_source_repr : repr (mkstr (E [228; 98] ++ [0]) 4) [228; 98].
Proof. apply repr_intro; [reflexivity|discriminate|reflexivity|reflexivity]. Qed.
Lemma old_replace_shorter_example :
  replace_char_in_string_old glibc_enc (mkstr (E [228; 98] ++ [0]) 4) 97 1 = Ok shrunk_example.
Proof. vm_compute. reflexivity. Qed.
Lemma shrunk_not_wf : ~ wf shrunk_example.
Proof. intros W. apply wf_strlen in W; [|reflexivity]. vm_compute in W. discriminate W. Qed.
Lemma shrunk_consequence :
  (r <- string_string_verkettet shrunk_example (mkstr [88; 0] 2) ;; print_text r) = Ok (E [97; 98]) /\
  string_iterate glibc_dec shrunk_example = Stuck /\
  string_equal_old false shrunk_example (mkstr [97; 98; 0] 3) = OOB.
Proof. vm_compute. auto. Qed.
(* the same input through the current definition *)
Lemma new_replace_shorter_example :
  replace_char_in_string glibc_enc (mkstr (E [228; 98] ++ [0]) 4) 97 1 = Ok (mkstr [97; 98; 0] 3).
Proof. vm_compute. reflexivity. Qed.

Lemma old_replace_shorter_refuted :
  exists s cs ch i s', repr s cs /\ tchar ch = true /\
    replace_char_in_string_old glibc_enc s ch i = Ok s' /\ ~ wf s' /\
    (r <- string_string_verkettet s' (mkstr [88; 0] 2) ;; print_text r) = Ok (E [97; 98]) /\
    string_iterate glibc_dec s' = Stuck /\
    string_equal_old false s' (mkstr [97; 98; 0] 3) = OOB /\
    replace_char_in_string glibc_enc s ch i = Ok (mkstr [97; 98; 0] 3).
Proof.
  exists (mkstr (E [228; 98] ++ [0]) 4), [228; 98], 97, 1, shrunk_example.
  destruct shrunk_consequence as (C1 & C2 & C3).
  exact (conj shrunk_source_repr (conj eq_refl (conj old_replace_shorter_example (conj shrunk_not_wf
          (conj C1 (conj C2 (conj C3 new_replace_shorter_example))))))).
Qed.

(* ---- why ddp_string_equal compares strlen bytes (the definition before the fix compared str1->cap bytes) --- *)
Lemma old_equal_empty_refuted :
  repr owned_empty [] /\ repr empty_string [] /\
  string_equal_old false owned_empty empty_string = OOB /\
  string_equal_old false empty_string owned_empty = Ok true /\
  string_equal false owned_empty empty_string = Ok true /\
  string_equal false empty_string owned_empty = Ok true.
Proof. repeat split; try apply repr_owned_empty; try apply repr_empty; vm_compute; reflexivity. Qed.

(* ---- every operation keeps every register well formed, for every ddpchar --------------------------------- *)
Lemma srel_wf st sst : srel st sst -> Forall wf st.
Proof. induction 1 as [|s cs st sst H _ IH]; constructor; [exists cs; exact H|exact IH]. Qed.

Lemma wf_preserved_all_chars enc dec : codec_ok enc dec ->
  forall ops, along (fun _ => in_text) sinit ops = true ->
    match snd (run enc dec init_state ops) with
    | Ok st => Forall wf st
    | Err => True
    | _ => False
    end.
Proof.
  intros C ops G. destruct (history_refines enc dec C ops init_state sinit init_rel G) as [_ F].
  destruct (snd (run enc dec init_state ops)), (snd (srun sinit ops)); cbn in F; try contradiction; auto.
  eapply srel_wf, F.
Qed.

(* U+0000 (like every value that is not a scalar value) is not a character of any Text: no
   well-formed ddpstring has it among its code points; converting it gives the empty Text, appending it
   appends nothing, storing it is a Laufzeitfehler *)
Lemma nul_not_representable s cs : wf s -> cps s = Some cs -> ~ In 0 cs.
Proof.
  intros W Hc Hin. assert (R : repr s cs) by (apply repr_wf_cps; auto).
  pose proof (repr_tchars _ _ R) as T. unfold tchars in T. rewrite forallb_forall in T.
  specialize (T 0 Hin). discriminate T.
Qed.
Lemma nul_char_operations :
  char_to_string glibc_enc 0 = Ok empty_string /\
  string_char_verkettet glibc_enc (mkstr [97; 0] 2) 0 = Ok (mkstr [97; 0] 2) /\
  char_string_verkettet glibc_enc 0 (mkstr [97; 0] 2) = Ok (mkstr [97; 0] 2) /\
  replace_char_in_string glibc_enc (mkstr [97; 0] 2) 0 1 = Err.
Proof. vm_compute. auto. Qed.
