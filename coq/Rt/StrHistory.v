(* Rt/StrHistory.v — proofs, part 6: the abstraction function, the simulation of one operation,
   its lifting to histories, the casts, the concrete codec, and the counterexamples of the pinned
   runtime (in-place replacement by a shorter character; U+0000). *)
From Coq Require Import List ZArith Bool Lia ZifyBool.
Import ListNotations.
From DDP Require Import Rt.Str Rt.StrSpec Rt.StrBase Rt.StrUtf8 Rt.StrOps Rt.StrOps2 Rt.StrOps3.
Open Scope Z_scope.

(* the codec assumptions: standard UTF-8 on every Unicode scalar value *)
Definition codec_ok (enc : Z -> option (list Z)) (dec : list Z -> option Z) : Prop :=
  (forall c, scalarb c = true -> enc c = Some (utf8_enc c)) /\
  (forall c, scalarb c = true -> dec (utf8_enc c) = Some c).

Lemma glibc_codec_ok : codec_ok glibc_enc glibc_dec.
Proof. split; [exact glibc_enc_scalar|exact glibc_dec_enc]. Qed.

(* ---- abstraction ------------------------------------------------------------------------------------ *)
Lemma repr_cps s cs : repr s cs -> cps s = Some cs.
Proof.
  intros H. destruct cs as [|c cs]; [rewrite (repr_nil _ H); reflexivity|].
  pose proof (repr_tchars _ _ H) as T. rewrite (repr_open _ _ _ H). unfold cps. rewrite is_null_block. cbn [bytes].
  rewrite c_string_nz by (apply E_bytes, T). apply decode_E, T.
Qed.
Lemma repr_wf_cps s cs : repr s cs <-> wf s /\ cps s = Some cs.
Proof.
  split.
  - intros H. split; [exists cs; exact H|apply repr_cps, H].
  - intros [[cs' H'] Hc]. rewrite (repr_cps _ _ H') in Hc. injection Hc as <-. exact H'.
Qed.
Lemma repr_fun s cs1 cs2 : repr s cs1 -> repr s cs2 -> cs1 = cs2.
Proof. intros H1 H2. apply repr_cps in H1, H2. congruence. Qed.
Lemma wf_cap s cs : repr s cs -> cap s = (match cs with [] => 0 | _ => len (E cs) + 1 end).
Proof. intros H. destruct cs; [rewrite (repr_nil _ H); reflexivity|rewrite (repr_open _ _ _ H); reflexivity]. Qed.
(* what well-formedness means for the capacity: exactly the C string length plus one *)
Lemma wf_strlen s : wf s -> is_null s = false -> c_strlen (bytes s) = Ok (cap s - 1).
Proof.
  intros [cs H] N. destruct cs as [|c cs]; [rewrite (repr_nil _ H) in N; discriminate N|].
  rewrite (repr_open _ _ _ H). cbn [bytes cap]. rewrite c_strlen_nz by (apply E_bytes, (repr_tchars _ _ H)).
  f_equal. lia.
Qed.

(* ---- casts ------------------------------------------------------------------------------------------------ *)
Lemma cast_roundtrip_char c : scalarb c = true -> int_to_char (char_to_int c) = c.
Proof. unfold scalarb, int_to_char, char_to_int. intros H. rewrite Z.mod_small by lia. lia. Qed.
Lemma cast_roundtrip_int z : -2^31 <= z < 2^31 -> char_to_int (int_to_char z) = z.
Proof. unfold int_to_char, char_to_int. intros H. rewrite Z.mod_small by lia. lia. Qed.

(* ---- one operation ----------------------------------------------------------------------------------------- *)
Definition srel (st : list ddpstring) (sst : list (list Z)) : Prop := Forall2 repr st sst.

Lemma reg_rel st sst r : srel st sst -> repr (reg st r) (sreg sst r).
Proof.
  intros H. revert r. induction H as [|s cs st sst Hs Hst IH]; intros r.
  - destruct r; apply repr_empty.
  - destruct r as [|r]; [exact Hs|apply IH].
Qed.
Lemma upd_rel st sst r v cs : srel st sst -> repr v cs -> srel (upd st r v) (upd sst r cs).
Proof.
  intros H Hv. revert r. induction H as [|s cs0 st sst Hs Hst IH]; intros r; [constructor|].
  destruct r as [|r]; cbn [upd]; constructor; auto. apply IH.
Qed.
Lemma init_rel : srel init_state sinit.
Proof. repeat constructor; apply repr_empty. Qed.

Definition step_rel (r : res (list ddpstring * obs)) (e : res (list (list Z) * obs)) : Prop :=
  match r, e with
  | Ok (st', v), Ok (sst', v') => srel st' sst' /\ v = v'
  | Err, Err => True
  | _, _ => False
  end.

Definition text_guard (st : list (list Z)) (o : op) : bool := in_text o && shrink_free st o.

Section WithCodec.
  Variable enc : Z -> option (list Z).
  Variable dec : list Z -> option Z.
  Hypothesis codec : codec_ok enc dec.

  Let enc_ok : forall c, tchar c = true -> enc c = Some (utf8_enc c).
  Proof. intros c H. apply (proj1 codec), tchar_scalar, H. Qed.
  Let dec_ok : forall c, tchar c = true -> dec (utf8_enc c) = Some c.
  Proof. intros c H. apply (proj2 codec), tchar_scalar, H. Qed.

  Ltac producer R :=
    match type of R with
    | rres ?x _ => destruct x as [v| | | |]; cbn [rres] in R; try contradiction; cbn [bind step_rel]
    end.

  Lemma step_refines st sst o :
    srel st sst -> text_guard sst o = true -> step_rel (step enc dec st o) (sstep sst o).
  Proof.
    intros Hrel G. unfold text_guard in G. apply andb_true_iff in G. destruct G as [Gt Gs].
    destruct o as [r bs|r a|r a b|r a c|r c a|r a i j|r c|r c i|a i|a|a b|a|a]; cbn [step sstep in_text] in *.
    - destruct (decode bs) as [cs|] eqn:D; [|discriminate Gt]. apply decode_sound in D. destruct D as [-> T].
      pose proof (from_constant_repr cs T) as R. producer R. split; [apply upd_rel; assumption|reflexivity].
    - rewrite (deep_copy_repr _ _ (reg_rel _ _ a Hrel)). cbn [bind step_rel].
      split; [apply upd_rel; [assumption|apply reg_rel, Hrel]|reflexivity].
    - rewrite (deep_copy_repr _ _ (reg_rel _ _ a Hrel)). cbn [bind].
      pose proof (string_string_verkettet_repr _ _ _ _ (reg_rel _ _ a Hrel) (reg_rel _ _ b Hrel)) as R.
      producer R. split; [apply upd_rel; assumption|reflexivity].
    - rewrite (deep_copy_repr _ _ (reg_rel _ _ a Hrel)). cbn [bind].
      pose proof (string_char_verkettet_repr enc enc_ok _ _ c (reg_rel _ _ a Hrel) Gt) as R.
      producer R. split; [apply upd_rel; assumption|reflexivity].
    - rewrite (deep_copy_repr _ _ (reg_rel _ _ a Hrel)). cbn [bind].
      pose proof (char_string_verkettet_repr enc enc_ok c _ _ (reg_rel _ _ a Hrel) Gt) as R.
      producer R. split; [apply upd_rel; assumption|reflexivity].
    - pose proof (string_slice_repr _ _ i j (reg_rel _ _ a Hrel)) as R.
      destruct (string_slice (reg st a) i j) as [v| | | |], (s_slice (sreg sst a) i j) as [w| | | |];
        cbn [rres] in R; try contradiction; cbn [bind step_rel]; auto.
      split; [apply upd_rel; assumption|reflexivity].
    - pose proof (char_to_string_repr enc enc_ok c Gt) as R. producer R.
      split; [apply upd_rel; assumption|reflexivity].
    - cbn [shrink_free] in Gs.
      assert (Hg : forall old, s_index (sreg sst r) i = Ok old -> cp_len old <= cp_len c).
      { intros old Ho. rewrite Ho in Gs. lia. }
      pose proof (replace_char_repr enc enc_ok _ _ c i (reg_rel _ _ r Hrel) Gt Hg) as R.
      destruct (replace_char_in_string enc (reg st r) c i) as [v| | | |], (s_replace (sreg sst r) c i) as [w| | | |];
        cbn [rres] in R; try contradiction; cbn [bind step_rel]; auto.
      split; [apply upd_rel; assumption|reflexivity].
    - rewrite (string_index_repr dec dec_ok _ _ i (reg_rel _ _ a Hrel)).
      unfold s_index. destruct ((1 <=? i) && (i <=? clen (sreg sst a))); cbn [bind step_rel]; auto.
    - rewrite (string_length_repr _ _ (reg_rel _ _ a Hrel)). cbn [bind step_rel]. auto.
    - rewrite (string_equal_repr _ _ _ _ _ (reg_rel _ _ a Hrel) (reg_rel _ _ b Hrel)).
      + cbn [bind step_rel]. auto.
      + intros E0. apply Nat.eqb_eq in E0. subst b. reflexivity.
    - rewrite (string_iterate_repr dec dec_ok _ _ (reg_rel _ _ a Hrel)). cbn [bind step_rel]. auto.
    - rewrite (print_text_repr _ _ (reg_rel _ _ a Hrel)). cbn [bind step_rel]. auto.
  Qed.

  (* ---- histories -------------------------------------------------------------------------------------------- *)
  Definition fin_rel (r : res (list ddpstring)) (e : res (list (list Z))) : Prop :=
    match r, e with
    | Ok st, Ok sst => srel st sst
    | Err, Err => True
    | _, _ => False
    end.

  Lemma history_refines ops : forall st sst,
    srel st sst -> along text_guard sst ops = true ->
    fst (run enc dec st ops) = fst (srun sst ops) /\ fin_rel (snd (run enc dec st ops)) (snd (srun sst ops)).
  Proof.
    induction ops as [|o ops IH]; intros st sst Hrel G.
    - cbn. auto.
    - cbn [along] in G. apply andb_true_iff in G. destruct G as [Go Grest].
      pose proof (step_refines st sst o Hrel Go) as S. cbn [run srun].
      destruct (step enc dec st o) as [[st' v]| | | |], (sstep sst o) as [[sst' v']| | | |];
        cbn [step_rel] in S; try contradiction; try (cbn; auto; fail).
      destruct S as [Hrel' <-]. specialize (IH st' sst' Hrel' Grest).
      destruct (run enc dec st' ops) as [vs fin], (srun sst' ops) as [vs' fin']. cbn [fst snd] in *.
      destruct IH as [-> Hf]. auto.
  Qed.
End WithCodec.

(* ---- the pinned runtime breaks the invariant: replacement by a shorter character ------------------------- *)
(* "äb" with 'a' stored at position 1 keeps capacity 4 for a text of 2 bytes *)
Definition shrunk_example : ddpstring := mkstr [97; 98; 0; 0] 4.
Lemma replace_shorter_example :
  replace_char_in_string glibc_enc (mkstr (E [228; 98] ++ [0]) 4) 97 1 = Ok shrunk_example.
Proof. vm_compute. reflexivity. Qed.
Lemma shrunk_not_wf : ~ wf shrunk_example.
Proof. intros W. apply wf_strlen in W; [|reflexivity]. vm_compute in W. discriminate W. Qed.
Lemma shrunk_source_repr : repr (mkstr (E [228; 98] ++ [0]) 4) [228; 98].
Proof. apply repr_intro; [reflexivity|discriminate|reflexivity|reflexivity]. Qed.

(* consequences on whole histories: lost concatenation, wrong equality, endless iteration *)
Definition concat_witness : list op :=
  [OLit 0 (E [228; 98]); OReplace 0 97 1; OLit 1 (E [88]); OConcat 2 0 1; OPrint 2].
Definition equal_witness : list op :=
  [OLit 0 (E [8364; 120]); OReplace 0 97 1; OLit 1 (E [97; 8364]); OReplace 1 120 2; OPrint 0; OPrint 1; OEqual 0 1].
Definition iterate_witness : list op :=
  [OLit 0 (E [228; 98]); OReplace 0 97 1; OIter 0].
Definition overread_witness : list op :=
  [OLit 0 (E [228; 98]); OReplace 0 97 1; OLit 1 (E [97; 98]); OEqual 0 1].

Lemma concat_witness_runs :
  along (fun _ => in_text) sinit concat_witness = true /\
  fst (m_run init_state concat_witness) = [VNone; VNone; VNone; VNone; VChars (E [97; 98])] /\
  fst (srun sinit concat_witness) = [VNone; VNone; VNone; VNone; VChars (E [97; 98; 88])].
Proof. vm_compute. auto. Qed.
Lemma equal_witness_runs :
  along (fun _ => in_text) sinit equal_witness = true /\
  fst (m_run init_state equal_witness) = [VNone; VNone; VNone; VNone; VChars (E [97; 120]); VChars (E [97; 120]); VBool false] /\
  fst (srun sinit equal_witness) = [VNone; VNone; VNone; VNone; VChars (E [97; 120]); VChars (E [97; 120]); VBool true].
Proof. vm_compute. auto. Qed.
Lemma iterate_witness_runs :
  along (fun _ => in_text) sinit iterate_witness = true /\
  snd (m_run init_state iterate_witness) = Stuck /\
  fst (srun sinit iterate_witness) = [VNone; VNone; VChars [97; 98]].
Proof. vm_compute. auto. Qed.
Lemma overread_witness_runs :
  along (fun _ => in_text) sinit overread_witness = true /\
  snd (m_run init_state overread_witness) = OOB /\
  fst (srun sinit overread_witness) = [VNone; VNone; VNone; VBool true].
Proof. vm_compute. auto. Qed.

(* U+0000 is a scalar value that the NUL-terminated representation cannot hold *)
Lemma nul_char_example :
  char_to_string glibc_enc 0 = Ok (mkstr [0; 0] 2) /\ cps (mkstr [0; 0] 2) = Some [] /\ ~ wf (mkstr [0; 0] 2).
Proof.
  split; [vm_compute; reflexivity|]. split; [vm_compute; reflexivity|].
  intros W. apply wf_strlen in W; [|reflexivity]. vm_compute in W. discriminate W.
Qed.

Lemma num_bytes_char_len c : tchar c = true -> utf8_num_bytes_char c = cp_len c.
Proof.
  intros H. apply tchar_range in H. unfold utf8_num_bytes_char, cp_len.
  repeat match goal with |- context [if ?g then _ else _] => destruct g eqn:?; try lia end.
Qed.

Lemma shrunk_cps : s_replace [228; 98] 97 1 = Ok [97; 98] /\ cps shrunk_example = Some [97; 98].
Proof. vm_compute. auto. Qed.

Lemma concat_witness_differs :
  along (fun _ => in_text) sinit concat_witness = true /\
  fst (m_run init_state concat_witness) <> fst (srun sinit concat_witness).
Proof.
  destruct concat_witness_runs as (G & M & S). split; [exact G|]. rewrite M, S. vm_compute. intros H. discriminate H.
Qed.
