(* Rt/StrOld.v — ddp_replace_char_in_string as it was BEFORE /repo commit 629848a ("replacing a
   character of a Text by a shorter one shrinks the capacity"): the in-place shrink kept the capacity.
   Kept only as documentation of why the reallocation is needed (Props/C12.v,
   C12_old_replace_shorter_refuted).  Definitions only. *)
From Coq Require Import List ZArith Bool.
Import ListNotations.
From DDP Require Import Rt.Str.
Open Scope Z_scope.

Section Codec.
  Variable enc : Z -> option (list Z).

  Definition replace_char_in_string_old (s : ddpstring) (ch : Z) (index : Z) : res ddpstring :=
    if index <? 1 then Err
    else if (cap s <? index) || (cap s <=? 1) then index_error s
    else
      let blk := bytes s in
      i <- index_walk blk 0 (Z.to_nat (index - 1)) ;;
      b <- rd blk i ;;
      if b =? 0 then index_error s
      else
        p <- ptr blk i ;;
        oldLen <- utf8_num_bytes p ;;
        '(newLen, newChar) <- utf8_char_to_string enc ch ;;
        if newLen <? 0 then OOB
        else if oldLen =? newLen then
          b1 <- blit blk i newChar ;; Ok (mkstr b1 (cap s))
        else if newLen <? oldLen then
          (* in place; the capacity was NOT adjusted *)
          b1 <- blit blk i newChar ;;
          tl <- sub b1 (i + oldLen) (cap s - i - oldLen) ;;
          b2 <- blit b1 (i + newLen) tl ;;
          Ok (mkstr b2 (cap s))
        else
          let newCap := cap s - oldLen + newLen in
          pre <- sub blk 0 i ;;
          n1 <- blit (alloc newCap) 0 pre ;;
          n2 <- blit n1 i newChar ;;
          tl <- sub blk (i + oldLen) (cap s - i - oldLen) ;;
          n3 <- blit n2 (i + newLen) tl ;;
          Ok (mkstr n3 newCap).
End Codec.

(* ddp_string_equal as it was BEFORE the fix "two empty Texts are equal whichever representation they have":
   memcmp over str1->cap bytes of both blocks *)
Definition string_equal_old (same : bool) (s1 s2 : ddpstring) : res bool :=
  if same then Ok true
  else
    l1 <- ddp_strlen s1 ;;
    l2 <- ddp_strlen s2 ;;
    if negb (l1 =? l2) then Ok false
    else
      a <- sub (bytes s1) 0 (cap s1) ;;
      b <- sub (bytes s2) 0 (cap s1) ;;
      Ok (list_eqb a b).
