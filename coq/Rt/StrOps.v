(* Rt/StrOps.v — proofs, part 3: every text operation of the runtime, run on representations of
   texts, computes the corresponding operation on code-point lists and returns a representation. *)
From Coq Require Import List ZArith Bool Lia ZifyBool.
Import ListNotations.
From DDP Require Import Rt.Str Rt.StrSpec Rt.StrBase Rt.StrUtf8.
Open Scope Z_scope.

(* result of a producer against the specification *)
Definition rres (r : res ddpstring) (e : res (list Z)) : Prop :=
  match r, e with
  | Ok s, Ok cs => repr s cs
  | Err, Err => True
  | _, _ => False
  end.

Lemma repr_tchars s cs : repr s cs -> tchars cs.
Proof. intros [H _]. exact H. Qed.
Lemma repr_nil s : repr s [] -> s = empty_string \/ s = owned_empty.
Proof. intros [_ [[_ H]|[[_ H]|[H _]]]]; [left; exact H|right; exact H|congruence]. Qed.
Lemma repr_empty : repr empty_string [].
Proof. split; [reflexivity|left; split; reflexivity]. Qed.
Lemma repr_owned_empty : repr owned_empty [].
Proof. split; [reflexivity|right; left; split; reflexivity]. Qed.
Lemma repr_cons s c cs : repr s (c :: cs) ->
  bytes s = E (c :: cs) ++ [0] /\ cap s = len (E (c :: cs)) + 1 /\ tchar c = true /\ tchars cs.
Proof.
  intros [T [[H _]|[[H _]|(_ & Hb & Hc)]]]; [discriminate H|discriminate H|]. apply tchars_cons in T. destruct T as [T1 T2].
  rewrite Hc, Hb, len_app. cbn. auto.
Qed.
Lemma repr_intro cs b cp : tchars cs -> cs <> [] -> b = E cs ++ [0] -> cp = len b -> repr (mkstr b cp) cs.
Proof. intros T N -> ->. split; [exact T|right; right; repeat split; auto]. Qed.

Lemma clen_le_len_E cs : tchars cs -> clen cs <= len (E cs).
Proof.
  induction cs as [|c cs IH]; intros H; [cbn; lia|]. apply tchars_cons in H. destruct H as [Hc H].
  rewrite E_cons, len_app. pose proof (shape_len _ (enc_shape c Hc)). specialize (IH H).
  unfold clen in *. cbn [length]. lia.
Qed.
Lemma len_E_pos c cs : tchar c = true -> 1 <= len (E (c :: cs)).
Proof. intros H. pose proof (E_len_pos c cs H). pose proof (len_nonneg (E cs)). lia. Qed.

Lemma blit_alloc_all d : blit (alloc (len d)) 0 d = Ok d.
Proof. rewrite blit_fresh0 by lia. rewrite Z.sub_diag, alloc_0, app_nil_r. reflexivity. Qed.

Lemma is_null_block cs : is_null (mkstr (E cs ++ [0]) (len (E cs) + 1)) = false.
Proof. unfold is_null. cbn [bytes]. destruct (E cs); reflexivity. Qed.

(* a represented non-empty text, opened up *)
Lemma repr_open s c cs : repr s (c :: cs) -> s = mkstr (E (c :: cs) ++ [0]) (len (E (c :: cs)) + 1).
Proof. intros H. destruct (repr_cons _ _ _ H) as (Hb & Hc & _). destruct s as [b cp]. cbn in *. subst. reflexivity. Qed.

Lemma from_constant_repr cs : tchars cs -> rres (string_from_constant (E cs ++ [0])) (Ok cs).
Proof.
  intros T. unfold string_from_constant. rewrite c_strlen_nz by (apply E_bytes, T). cbn [bind].
  destruct cs as [|c cs].
  - cbn. apply repr_empty.
  - apply tchars_cons in T as T'. destruct T' as [Hc _]. pose proof (len_E_pos c cs Hc).
    case_if. replace (len (E (c :: cs)) + 1) with (len (E (c :: cs) ++ [0])) by (rewrite len_app; reflexivity).
    rewrite sub_all. cbn [bind]. rewrite blit_alloc_all. cbn [bind rres].
    apply repr_intro; auto. congruence.
Qed.

Lemma deep_copy_repr s cs : repr s cs -> deep_copy_string s = Ok s.
Proof.
  intros H. destruct cs as [|c cs]; [destruct (repr_nil _ H) as [-> | ->]; reflexivity|].
  rewrite (repr_open _ _ _ H). unfold deep_copy_string. rewrite is_null_block. cbn [bytes cap].
  replace (len (E (c :: cs)) + 1) with (len (E (c :: cs) ++ [0])) by (rewrite len_app; reflexivity).
  rewrite sub_all. cbn [bind]. rewrite blit_alloc_all. reflexivity.
Qed.

Lemma string_empty_repr s cs : repr s cs -> string_empty s = Ok (match cs with [] => true | _ => false end).
Proof.
  intros H. destruct cs as [|c cs]; [destruct (repr_nil _ H) as [-> | ->]; reflexivity|].
  rewrite (repr_open _ _ _ H). destruct (repr_cons _ _ _ H) as (_ & _ & Hc & _).
  unfold string_empty. rewrite is_null_block. cbn [bytes cap]. pose proof (len_E_pos c cs Hc). case_if.
  destruct (E_nonempty c cs Hc) as (a & t & -> & Ha). cbn [app]. rewrite rd_0. cbn [bind]. f_equal. lia.
Qed.

Lemma utf8_strlen_repr s cs : repr s cs -> utf8_strlen (bytes s) = Ok (clen cs).
Proof.
  intros H. destruct cs as [|c cs]; [destruct (repr_nil _ H) as [-> | ->]; reflexivity|].
  rewrite (repr_open _ _ _ H). cbn [bytes]. unfold utf8_strlen.
  destruct (E (c :: cs) ++ [0]) eqn:Q; [destruct (E (c :: cs)); discriminate Q|]. rewrite <- Q.
  apply utf8_strlen_E, (repr_tchars _ _ H).
Qed.

Lemma string_length_repr s cs : repr s cs -> string_length s = Ok (clen cs).
Proof.
  intros H. unfold string_length. rewrite (string_empty_repr _ _ H). cbn [bind].
  destruct cs; [reflexivity|]. apply utf8_strlen_repr, H.
Qed.

Lemma index_error_repr s cs A : repr s cs -> @index_error s A = Err.
Proof. intros H. unfold index_error. rewrite (utf8_strlen_repr _ _ H). reflexivity. Qed.

Lemma ddp_strlen_repr s cs : repr s cs -> ddp_strlen s = Ok (len (E cs)).
Proof.
  intros H. destruct cs as [|c cs]; [destruct (repr_nil _ H) as [-> | ->]; reflexivity|].
  rewrite (repr_open _ _ _ H). unfold ddp_strlen. rewrite is_null_block. cbn [bytes].
  apply c_strlen_nz, E_bytes, (repr_tchars _ _ H).
Qed.

Lemma print_text_repr s cs : repr s cs -> print_text s = Ok (E cs).
Proof.
  intros H. destruct cs as [|c cs]; [destruct (repr_nil _ H) as [-> | ->]; reflexivity|].
  rewrite (repr_open _ _ _ H). unfold print_text. rewrite is_null_block. cbn [bytes].
  apply c_string_nz, E_bytes, (repr_tchars _ _ H).
Qed.

(* position k of a list: either past the end or at an element *)
Lemma split_at (k : nat) (cs : list Z) :
  (skipn k cs = [] /\ (length cs <= k)%nat /\ firstn k cs = cs) \/
  (exists x rest, skipn k cs = x :: rest /\ (k < length cs)%nat /\ nth k cs 0 = x /\ length (firstn k cs) = k).
Proof.
  destruct (skipn k cs) as [|x rest] eqn:S.
  - left. assert (length cs <= k)%nat.
    { pose proof (skipn_length k cs) as L. rewrite S in L. cbn in L. lia. }
    repeat split; auto. apply firstn_all2. lia.
  - right. exists x, rest. assert (k < length cs)%nat.
    { pose proof (skipn_length k cs) as L. rewrite S in L. cbn in L. lia. }
    repeat split; auto.
    + rewrite <- (firstn_skipn k cs) at 1. rewrite app_nth2; rewrite firstn_length_le by lia; [|lia].
      rewrite Nat.sub_diag, S. reflexivity.
    + apply firstn_length_le. lia.
Qed.

Lemma len_one x : len [x] = 1.
Proof. reflexivity. Qed.
Ltac lens := rewrite ?len_app, ?enc_len, ?len_one, ?len_nil.

Lemma num_bytes_char_len c : tchar c = true -> utf8_num_bytes_char c = cp_len c.
Proof.
  intros H. apply tchar_range in H. unfold utf8_num_bytes_char, cp_len.
  repeat match goal with |- context [if ?g then _ else _] => destruct g eqn:?; try lia end.
Qed.

Lemma blit_gen l off d : 0 <= off -> off + len d <= len l ->
  blit l off d = Ok (firstn (Z.to_nat off) l ++ d ++ skipn (Z.to_nat (off + len d)) l).
Proof. intros H1 H2. unfold blit. destruct ((off <? 0) || (len l <? off + len d)) eqn:G; [lia|reflexivity]. Qed.

(* giving back the tail of a block *)
Lemma realloc_shrink a j : realloc (a ++ j) (len a) = a.
Proof.
  unfold realloc. rewrite firstn_len_app.
  replace (Z.to_nat (len a) - length (a ++ j))%nat with 0%nat by (rewrite app_length; unfold len; lia).
  cbn [repeat]. apply app_nil_r.
Qed.

Lemma skipn_S_of (k : nat) (l : list Z) x rest : skipn k l = x :: rest -> skipn (S k) l = rest.
Proof.
  revert l. induction k as [|k IH]; intros l H.
  - cbn in H. subst l. reflexivity.
  - destruct l as [|y l]; [discriminate H|]. cbn [skipn] in H |- *. apply IH in H. exact H.
Qed.

Section WithCodec.
  Variable enc : Z -> option (list Z).
  Variable dec : list Z -> option Z.
  Hypothesis enc_ok : forall c, scalarb c = true -> enc c = Some (utf8_enc c).
  Hypothesis dec_ok : forall c, tchar c = true -> dec (utf8_enc c) = Some c.

  Lemma char_to_string_tmp c : tchar c = true -> utf8_char_to_string enc c = Ok (cp_len c, utf8_enc c).
  Proof.
    intros H. unfold utf8_char_to_string. rewrite (num_bytes_char_len c H). pose proof (cp_len_pos c). case_if.
    rewrite enc_ok by (apply tchar_scalar, H). rewrite enc_len. case_if. reflexivity.
  Qed.

  (* text_char_to_bytes: the encoding of a text character, 0 bytes for every other ddpchar *)
  Lemma text_char_tchar c : tchar c = true -> text_char_to_bytes enc c = Ok (cp_len c, utf8_enc c).
  Proof.
    intros H. unfold text_char_to_bytes. rewrite char_to_string_tmp by exact H. cbn [bind].
    pose proof (cp_len_pos c). apply tchar_range in H. case_if. reflexivity.
  Qed.
  Lemma text_char_other c : tchar c = false -> exists t, text_char_to_bytes enc c = Ok (0, t).
  Proof.
    intros H. unfold text_char_to_bytes, utf8_char_to_string.
    destruct (scalarb c) eqn:S.
    - assert (c = 0) by (unfold tchar in H; lia). subst c. cbn [utf8_num_bytes_char]. cbn.
      rewrite (enc_ok 0 eq_refl). cbn. eexists. reflexivity.
    - assert (N : utf8_num_bytes_char c = -1).
      { unfold scalarb in S. unfold utf8_num_bytes_char.
        repeat match goal with |- context [if ?g then _ else _] => destruct g eqn:?; try lia end. }
      rewrite N. cbn. eexists. reflexivity.
  Qed.

  (* where the index loop stops on a represented text *)
  Lemma index_walk_repr c cs k :
    tchars (c :: cs) ->
    index_walk (E (c :: cs) ++ [0]) 0 k = Ok (len (E (firstn k (c :: cs)))).
  Proof.
    intros T. exact (index_walk_E [] k [] (c :: cs) T).
  Qed.

  Lemma string_index_repr s cs i : repr s cs -> string_index dec s i = s_index cs i.
  Proof.
    intros H. unfold string_index, s_index.
    destruct (i <? 1) eqn:I1; [replace ((1 <=? i) && (i <=? clen cs)) with false by lia; reflexivity|].
    destruct cs as [|c cs].
    { destruct (repr_nil _ H) as [-> | ->]; [unfold empty_string|unfold owned_empty]; cbn [cap bytes];
      [replace ((0 <? i) || (0 <=? 1)) with true by lia|replace ((1 <? i) || (1 <=? 1)) with true by lia];
      replace ((1 <=? i) && (i <=? clen [])) with false by (cbn; lia); reflexivity. }
    pose proof (repr_tchars _ _ H) as T. destruct (repr_cons _ _ _ H) as (_ & _ & Hc & Tcs).
    pose proof (clen_le_len_E _ T) as Hle. pose proof (len_E_pos c cs Hc) as Hpos.
    pose proof (repr_open _ _ _ H) as Hs. subst s. cbn [cap bytes].
    destruct ((len (E (c :: cs)) + 1 <? i) || (len (E (c :: cs)) + 1 <=? 1)) eqn:G.
    { rewrite (index_error_repr _ _ _ H).
      replace ((1 <=? i) && (i <=? clen (c :: cs))) with false by lia. reflexivity. }
    rewrite index_walk_repr by exact T. cbn [bind].
    set (k := Z.to_nat (i - 1)).
    destruct (split_at k (c :: cs)) as [(S & L & F)|(x & rest & S & L & N & F)].
    - rewrite F. replace (E (c :: cs) ++ [0]) with (E (c :: cs) ++ 0 :: []) by reflexivity.
      rewrite rd_app. cbn [bind]. rewrite Z.eqb_refl.
      rewrite (index_error_repr _ _ _ H).
      replace ((1 <=? i) && (i <=? clen (c :: cs))) with false by (unfold clen; lia). reflexivity.
    - assert (Tx : tchars (x :: rest)).
      { rewrite <- S. rewrite <- (firstn_skipn k (c :: cs)) in T. apply tchars_app in T. apply T. }
      apply tchars_cons in Tx as Tx'. destruct Tx' as [Hx _].
      assert (Hcs : c :: cs = firstn k (c :: cs) ++ x :: rest) by (rewrite <- S; symmetry; apply firstn_skipn).
      assert (Hblk : E (c :: cs) ++ [0] = E (firstn k (c :: cs)) ++ E (x :: rest) ++ 0 :: [])
        by (rewrite Hcs at 1; rewrite E_app, <- app_assoc; reflexivity).
      rewrite Hblk.
      destruct (E_nonempty x rest Hx) as (a & t & Ht & Ha). rewrite Ht. cbn [app]. rewrite rd_app. cbn [bind].
      case_if. rewrite ptr_app. cbn [bind].
      replace (a :: t ++ [0]) with (E (x :: rest) ++ 0 :: []) by (rewrite Ht; reflexivity).
      rewrite (string_to_char_E dec dec_ok) by exact Hx. cbn [bind].
      replace ((1 <=? i) && (i <=? clen (c :: cs))) with true by (unfold clen; lia).
      fold k. rewrite N. reflexivity.
  Qed.

  (* ---- ddp_replace_char_in_string -------------------------------------------------------------- *)
  (* common part: the position found by the index loop, the old and the new character *)
  Lemma replace_char_repr s cs ch i :
    repr s cs -> tchar ch = true ->
    rres (replace_char_in_string enc s ch i) (s_replace cs ch i).
  Proof.
    intros H Hch. unfold replace_char_in_string, s_replace.
    destruct (i <? 1) eqn:I1; [replace ((1 <=? i) && (i <=? clen cs)) with false by lia; exact I|].
    destruct cs as [|c cs].
    { destruct (repr_nil _ H) as [-> | ->]; [unfold empty_string|unfold owned_empty]; cbn [cap bytes];
      [replace ((0 <? i) || (0 <=? 1)) with true by lia|replace ((1 <? i) || (1 <=? 1)) with true by lia];
      replace ((1 <=? i) && (i <=? clen [])) with false by (cbn; lia); exact I. }
    pose proof (repr_tchars _ _ H) as T. destruct (repr_cons _ _ _ H) as (_ & _ & Hc & Tcs).
    pose proof (clen_le_len_E _ T) as Hle. pose proof (len_E_pos c cs Hc) as Hpos.
    pose proof (repr_open _ _ _ H) as Hs. subst s. cbn [cap bytes].
    destruct ((len (E (c :: cs)) + 1 <? i) || (len (E (c :: cs)) + 1 <=? 1)) eqn:G.
    { rewrite (index_error_repr _ _ _ H).
      replace ((1 <=? i) && (i <=? clen (c :: cs))) with false by lia. exact I. }
    rewrite index_walk_repr by exact T. cbn [bind].
    set (k := Z.to_nat (i - 1)).
    destruct (split_at k (c :: cs)) as [(Sk & L & F)|(x & rest & Sk & L & N & F)].
    - rewrite F. replace (E (c :: cs) ++ [0]) with (E (c :: cs) ++ 0 :: []) by reflexivity.
      rewrite rd_app. cbn [bind]. rewrite Z.eqb_refl.
      rewrite (index_error_repr _ _ _ H).
      replace ((1 <=? i) && (i <=? clen (c :: cs))) with false by (unfold clen; lia). exact I.
    - assert (Tx : tchars (x :: rest)).
      { rewrite <- Sk. rewrite <- (firstn_skipn k (c :: cs)) in T. apply tchars_app in T. apply T. }
      assert (Tpre : tchars (firstn k (c :: cs))).
      { rewrite <- (firstn_skipn k (c :: cs)) in T. apply tchars_app in T. apply T. }
      apply tchars_cons in Tx as Tx'. destruct Tx' as [Hx Trest].
      assert (Hcs : c :: cs = firstn k (c :: cs) ++ x :: rest) by (rewrite <- Sk; symmetry; apply firstn_skipn).
      replace ((1 <=? i) && (i <=? clen (c :: cs))) with true by (unfold clen; lia).
      replace (Z.to_nat i) with (S k) by lia.
      assert (Hskip : skipn (S k) (c :: cs) = rest).
      { apply (skipn_S_of _ _ _ _ Sk). }
      rewrite Hskip. fold k.
      set (pre := firstn k (c :: cs)) in *.
      assert (Hblk : E (c :: cs) ++ [0] = E pre ++ utf8_enc x ++ (E rest ++ [0]))
        by (rewrite Hcs at 1; rewrite E_app, E_cons, <- !app_assoc; reflexivity).
      assert (Hcap : len (E (c :: cs)) + 1 = len (E pre) + cp_len x + len (E rest ++ [0])).
      { rewrite Hcs at 1. rewrite E_app, E_cons; lens; lia. }
      rewrite Hblk, Hcap.
      destruct (shape_head _ (enc_shape x Hx)) as (a & t & Ht & Ha & _).
      rewrite Ht at 1. cbn [app]. rewrite rd_app. cbn [bind]. case_if.
      rewrite ptr_app. cbn [bind].
      rewrite <- (app_nil_r (E rest ++ [0])) at 1. rewrite <- app_assoc.
      replace (utf8_enc x ++ E rest ++ [0] ++ []) with (E (x :: rest) ++ 0 :: []) by (rewrite E_cons, <- app_assoc; reflexivity).
      rewrite num_bytes_E by exact Hx. cbn [bind].
      rewrite text_char_tchar by exact Hch. cbn [bind].
      pose proof (cp_len_pos ch). pose proof (cp_len_pos x). case_if.
      assert (Tnew : tchars (pre ++ ch :: rest)).
      { apply tchars_app. split; [exact Tpre|]. apply tchars_cons. split; assumption. }
      assert (Nnew : pre ++ ch :: rest <> []) by (destruct pre; discriminate).
      destruct (cp_len x =? cp_len ch) eqn:EQ.
      + (* same width: overwritten in place *)
        replace (E (x :: rest) ++ [0]) with (utf8_enc x ++ (E rest ++ [0])) by (rewrite E_cons, <- app_assoc; reflexivity).
        rewrite blit_app by (rewrite !enc_len; lia). cbn [bind rres].
        apply repr_intro; auto.
        * rewrite E_app, E_cons, <- !app_assoc. reflexivity.
        * lens. lia.
      + destruct (cp_len ch <? cp_len x) eqn:LT.
        { (* narrower: written in place, the tail moved down, the surplus bytes given back *)
          set (o1 := firstn (Z.to_nat (cp_len ch)) (utf8_enc x)). set (o2 := skipn (Z.to_nat (cp_len ch)) (utf8_enc x)).
          assert (Ho : utf8_enc x = o1 ++ o2) by (symmetry; apply firstn_skipn).
          assert (Lo1 : len o1 = cp_len ch).
          { unfold o1, len. rewrite firstn_length_le; [lia|]. pose proof (enc_len x). unfold len in *. lia. }
          assert (Lo2 : len o2 = cp_len x - cp_len ch).
          { pose proof (enc_len x) as EL. rewrite Ho, len_app in EL. lia. }
          rewrite Ho, <- (app_assoc o1 o2).
          rewrite blit_app by (lens; lia). cbn [bind].
          replace (E pre ++ utf8_enc ch ++ o2 ++ E rest ++ [0]) with ((E pre ++ utf8_enc ch ++ o2) ++ (E rest ++ [0]) ++ [])
            by (rewrite app_nil_r, <- !app_assoc; reflexivity).
          replace (len (E pre) + cp_len x) with (len (E pre ++ utf8_enc ch ++ o2)) by (lens; lia).
          replace (len (E pre ++ utf8_enc ch ++ o2) + len (E rest ++ [0]) - len (E pre) - cp_len x) with (len (E rest ++ [0])) by (lens; lia).
          rewrite sub_app. cbn [bind].
          rewrite blit_gen by (pose proof (len_nonneg (E pre)); lens; lia). cbn [bind rres].
          replace (len (E pre) + cp_len ch) with (len (E pre ++ utf8_enc ch)) by (lens; lia).
          replace ((E pre ++ utf8_enc ch ++ o2) ++ (E rest ++ [0]) ++ []) with ((E pre ++ utf8_enc ch) ++ (o2 ++ E rest ++ [0]))
            by (rewrite app_nil_r, <- !app_assoc; reflexivity).
          rewrite firstn_len_app.
          replace (len (E pre ++ utf8_enc ch ++ o2) + len (E rest ++ [0]) - cp_len x + cp_len ch)
            with (len ((E pre ++ utf8_enc ch) ++ E rest ++ [0])) by (lens; lia).
          rewrite (app_assoc (E pre ++ utf8_enc ch) (E rest ++ [0])), realloc_shrink.
          apply repr_intro; auto.
          - rewrite E_app, E_cons, <- !app_assoc. reflexivity. }
        (* wider: a new block of the right capacity *)
        replace (E (x :: rest) ++ [0]) with (utf8_enc x ++ (E rest ++ [0])) by (rewrite E_cons, <- app_assoc; reflexivity).
        rewrite sub_prefix. cbn [bind].
        rewrite blit_fresh0 by (pose proof (len_nonneg (E rest ++ [0])); lia). cbn [bind].
        rewrite blit_fresh by (rewrite enc_len; pose proof (len_nonneg (E rest ++ [0])); lia). cbn [bind].
        replace (len (E pre) + cp_len x) with (len (E pre ++ utf8_enc x)) by (rewrite len_app, enc_len; reflexivity).
        replace (len (E pre ++ utf8_enc x) + len (E rest ++ [0]) - len (E pre) - cp_len x) with (len (E rest ++ [0]))
          by (lens; lia).
        rewrite (app_assoc (E pre) (utf8_enc x) (E rest ++ [0])).
        rewrite <- (app_nil_r (E rest ++ [0])) at 1. rewrite sub_app. cbn [bind].
        rewrite (app_assoc (E pre) (utf8_enc ch)).
        replace (len (E pre) + cp_len ch) with (len (E pre ++ utf8_enc ch)) by (rewrite len_app, enc_len; reflexivity).
        rewrite blit_fresh by (lens; lia). cbn [bind rres].
        apply repr_intro; auto.
        * replace (len (E pre ++ utf8_enc x) + len (E rest ++ [0]) - cp_len x + cp_len ch - len (E pre) - len (utf8_enc ch) - len (E rest ++ [0])) with 0
            by (lens; lia).
          rewrite alloc_0, app_nil_r, E_app, E_cons, <- !app_assoc. reflexivity.
        * lens. rewrite len_alloc by (lens; lia). lens. lia.
  Qed.
  (* storing a ddpchar that is not a text character is a Laufzeitfehler (after the index checks) *)
  Lemma replace_char_unstorable s cs ch i :
    repr s cs -> tchar ch = false -> replace_char_in_string enc s ch i = Err.
  Proof.
    intros H Hch. unfold replace_char_in_string.
    destruct (i <? 1) eqn:I1; [reflexivity|].
    destruct cs as [|c cs].
    { destruct (repr_nil _ H) as [-> | ->]; [unfold empty_string|unfold owned_empty]; cbn [cap bytes];
      [replace ((0 <? i) || (0 <=? 1)) with true by lia|replace ((1 <? i) || (1 <=? 1)) with true by lia]; reflexivity. }
    pose proof (repr_tchars _ _ H) as T. destruct (repr_cons _ _ _ H) as (_ & _ & Hc & Tcs).
    pose proof (repr_open _ _ _ H) as Hs. subst s. cbn [cap bytes].
    destruct ((len (E (c :: cs)) + 1 <? i) || (len (E (c :: cs)) + 1 <=? 1)) eqn:G.
    { apply (index_error_repr _ _ _ H). }
    rewrite index_walk_repr by exact T. cbn [bind].
    set (k := Z.to_nat (i - 1)).
    destruct (split_at k (c :: cs)) as [(Sk & L & F)|(x & rest & Sk & L & N & F)].
    - rewrite F. replace (E (c :: cs) ++ [0]) with (E (c :: cs) ++ 0 :: []) by reflexivity.
      rewrite rd_app. cbn [bind]. rewrite Z.eqb_refl. apply (index_error_repr _ _ _ H).
    - assert (Tx : tchars (x :: rest)).
      { rewrite <- Sk. rewrite <- (firstn_skipn k (c :: cs)) in T. apply tchars_app in T. apply T. }
      apply tchars_cons in Tx as Tx'. destruct Tx' as [Hx Trest].
      assert (Hcs : c :: cs = firstn k (c :: cs) ++ x :: rest) by (rewrite <- Sk; symmetry; apply firstn_skipn).
      assert (Hblk : E (c :: cs) ++ [0] = E (firstn k (c :: cs)) ++ E (x :: rest) ++ 0 :: [])
        by (rewrite Hcs at 1; rewrite E_app, <- app_assoc; reflexivity).
      rewrite Hblk.
      destruct (E_nonempty x rest Hx) as (a & t & Ht & Ha). rewrite Ht. cbn [app]. rewrite rd_app. cbn [bind].
      case_if. rewrite ptr_app. cbn [bind].
      replace (a :: t ++ [0]) with (E (x :: rest) ++ 0 :: []) by (rewrite Ht; reflexivity).
      rewrite num_bytes_E by exact Hx. cbn [bind].
      destruct (text_char_other ch Hch) as (tmp & ->). cbn [bind]. reflexivity.
  Qed.

  Lemma replace_char_all s cs ch i :
    repr s cs -> rres (replace_char_in_string enc s ch i) (if tchar ch then s_replace cs ch i else Err).
  Proof.
    intros H. destruct (tchar ch) eqn:Hch; [apply replace_char_repr; assumption|].
    rewrite (replace_char_unstorable s cs ch i H Hch). exact I.
  Qed.
End WithCodec.
