(* Rt/StrOps2.v — proofs, part 4: concatenations, conversion of a character, equality, iteration, slicing. *)
From Coq Require Import List ZArith Bool Lia ZifyBool.
Import ListNotations.
From DDP Require Import Rt.Str Rt.StrSpec Rt.StrBase Rt.StrUtf8 Rt.StrOps.
Open Scope Z_scope.

Lemma repr_block cs : tchars cs -> cs <> [] -> repr (mkstr (E cs ++ [0]) (len (E cs) + 1)) cs.
Proof. intros. apply repr_intro; auto. lens. reflexivity. Qed.

Lemma E_nonnil c cs : tchar c = true -> E (c :: cs) <> [].
Proof. intros H. destruct (E_nonempty c cs H) as (a & t & -> & _). discriminate. Qed.

Lemma sub_block l : sub (l ++ [0]) 0 (len l + 1) = Ok (l ++ [0]).
Proof. replace (len l + 1) with (len (l ++ [0])) by (lens; reflexivity). apply sub_all. Qed.
Lemma sub_block_pre l r : sub ((l ++ [0]) ++ r) 0 (len l + 1) = Ok (l ++ [0]).
Proof. replace (len l + 1) with (len (l ++ [0])) by (lens; reflexivity). apply sub_prefix. Qed.

Lemma blit_tail a b d : len d = len b -> blit (a ++ b) (len a) d = Ok (a ++ d).
Proof.
  intros H. rewrite <- (app_nil_r b). rewrite (blit_app a b [] d H), app_nil_r. reflexivity.
Qed.

Lemma blit_move l n d : 0 <= n -> len l = n + len d -> blit l n d = Ok (firstn (Z.to_nat n) l ++ d).
Proof.
  intros Hn Hl. unfold blit. destruct ((n <? 0) || (len l <? n + len d)) eqn:G; [lia|].
  rewrite skipn_all2 by (unfold len in *; lia). rewrite app_nil_r. reflexivity.
Qed.
Lemma blit_head f r t : len t = len f -> blit (f ++ r) 0 t = Ok (t ++ r).
Proof. intros H. exact (blit_app [] f r t H). Qed.

Section WithCodec.
  Variable enc : Z -> option (list Z).
  Variable dec : list Z -> option Z.
  Hypothesis enc_ok : forall c, scalarb c = true -> enc c = Some (utf8_enc c).
  Hypothesis dec_ok : forall c, tchar c = true -> dec (utf8_enc c) = Some c.

  (* ---- ddp_string_string_verkettet ------------------------------------------------------------------ *)
  Lemma string_string_verkettet_repr s1 s2 cs1 cs2 :
    repr s1 cs1 -> repr s2 cs2 -> rres (string_string_verkettet s1 s2) (Ok (cs1 ++ cs2)).
  Proof.
    intros H1 H2. unfold string_string_verkettet.
    rewrite (string_empty_repr _ _ H1), (string_empty_repr _ _ H2). cbn [bind].
    destruct cs1 as [|c1 cs1], cs2 as [|c2 cs2]; cbn [andb app].
    - apply repr_empty.
    - rewrite (deep_copy_repr _ _ H2). exact H2.
    - rewrite app_nil_r. exact H1.
    - pose proof (repr_tchars _ _ H1) as T1. pose proof (repr_tchars _ _ H2) as T2.
      rewrite (repr_open _ _ _ H1), (repr_open _ _ _ H2). cbn [bytes cap].
      pose proof (len_nonneg (E (c2 :: cs2))).
      rewrite realloc_grow by (lens; lia).
      rewrite sub_block. cbn [bind].
      replace (len (E (c1 :: cs1)) + 1 - 1) with (len (E (c1 :: cs1))) by lia.
      rewrite <- app_assoc.
      rewrite blit_tail by (lens; rewrite len_alloc by (lens; lia); lens; lia). cbn [bind rres].
      replace (c1 :: cs1 ++ c2 :: cs2) with ((c1 :: cs1) ++ c2 :: cs2) by reflexivity.
      apply repr_intro.
      + apply tchars_app. split; assumption.
      + discriminate.
      + rewrite E_app, <- !app_assoc. reflexivity.
      + lens. lia.
  Qed.

  (* ---- ddp_char_to_string ------------------------------------------------------------------------------ *)
  Lemma char_to_string_repr c : tchar c = true -> rres (char_to_string enc c) (Ok [c]).
  Proof.
    intros Hc. unfold char_to_string. rewrite (text_char_tchar enc enc_ok) by exact Hc. cbn [bind].
    pose proof (cp_len_pos c). case_if.
    rewrite blit_fresh0 by (lens; lia). cbn [bind].
    rewrite <- (enc_len c) at 2.
    rewrite blit_fresh by (lens; lia). cbn [bind rres].
    replace (cp_len c + 1 - len (utf8_enc c) - len [0]) with 0 by (lens; lia). rewrite alloc_0.
    apply repr_intro.
    - apply tchars_cons. split; [exact Hc|reflexivity].
    - discriminate.
    - rewrite E_one, app_nil_r. reflexivity.
    - lens. cbn. lia.
  Qed.

  (* ---- ddp_string_char_verkettet / ddp_char_string_verkettet ---------------------------------------- *)
  Lemma string_char_verkettet_repr s cs c :
    repr s cs -> tchar c = true -> rres (string_char_verkettet enc s c) (Ok (cs ++ [c])).
  Proof.
    intros H Hc. unfold string_char_verkettet. rewrite (text_char_tchar enc enc_ok) by exact Hc. cbn [bind].
    pose proof (cp_len_pos c). case_if.
    rewrite (string_empty_repr _ _ H). cbn [bind].
    destruct cs as [|c1 cs].
    - cbn [app]. rewrite <- E_one. apply from_constant_repr. apply tchars_cons. split; [exact Hc|reflexivity].
    - pose proof (repr_tchars _ _ H) as T. rewrite (repr_open _ _ _ H). cbn [bytes cap].
      rewrite realloc_grow by (lens; lia).
      replace (len (E (c1 :: cs)) + 1 + cp_len c - len (E (c1 :: cs) ++ [0])) with (len (utf8_enc c)) by (lens; lia).
      replace (len (E (c1 :: cs)) + 1 - 1) with (len (E (c1 :: cs))) by lia.
      rewrite <- app_assoc.
      replace ([0] ++ alloc (len (utf8_enc c))) with ((0 :: alloc (cp_len c - 1)) ++ [uninit]).
      2:{ rewrite enc_len. replace (cp_len c) with (cp_len c - 1 + 1) at 2 by lia. rewrite alloc_add by lia. reflexivity. }
      rewrite blit_app by (lens; rewrite len_cons, len_alloc by lia; lia). cbn [bind].
      replace (len (E (c1 :: cs)) + 1 + cp_len c - 1) with (len (E (c1 :: cs) ++ utf8_enc c)) by (lens; lia).
      rewrite app_assoc.
      replace ((E (c1 :: cs) ++ utf8_enc c) ++ [uninit]) with ((E (c1 :: cs) ++ utf8_enc c) ++ [uninit] ++ []) by reflexivity.
      rewrite blit_app by reflexivity. cbn [bind rres].
      replace (c1 :: cs ++ [c]) with ((c1 :: cs) ++ [c]) by reflexivity.
      apply repr_intro.
      + apply tchars_app. split; [exact T|]. apply tchars_cons. split; [exact Hc|reflexivity].
      + discriminate.
      + rewrite E_app, E_one, <- !app_assoc. reflexivity.
      + lens. lia.
  Qed.

  Lemma char_string_verkettet_repr c s cs :
    repr s cs -> tchar c = true -> rres (char_string_verkettet enc c s) (Ok (c :: cs)).
  Proof.
    intros H Hc. unfold char_string_verkettet. rewrite (text_char_tchar enc enc_ok) by exact Hc. cbn [bind].
    pose proof (cp_len_pos c). case_if.
    rewrite (string_empty_repr _ _ H). cbn [bind].
    destruct cs as [|c1 cs].
    - rewrite <- E_one. apply from_constant_repr. apply tchars_cons. split; [exact Hc|reflexivity].
    - pose proof (repr_tchars _ _ H) as T. rewrite (repr_open _ _ _ H). cbn [bytes cap].
      rewrite realloc_grow by (lens; lia).
      replace (len (E (c1 :: cs)) + 1 + cp_len c - len (E (c1 :: cs) ++ [0])) with (cp_len c) by (lens; lia).
      rewrite sub_block_pre. cbn [bind].
      (* memmove by cp_len c: the block is (first cp_len c bytes) ++ (the rest, as long as the moved data) *)
      set (blk := (E (c1 :: cs) ++ [0]) ++ alloc (cp_len c)).
      assert (Hlen : len blk = cp_len c + len (E (c1 :: cs) ++ [0])).
      { unfold blk. lens. rewrite len_alloc by lia. lia. }
      rewrite blit_move by lia. cbn [bind].
      rewrite blit_head by (unfold len in *; rewrite firstn_length_le by lia; rewrite <- enc_len; unfold len; lia).
      cbn [bind rres].
      apply repr_intro.
      + apply tchars_cons. split; assumption.
      + discriminate.
      + rewrite (E_cons c (c1 :: cs)), <- app_assoc. reflexivity.
      + lens. lia.
  Qed.

  (* ---- the same three for EVERY ddpchar: a value that is not a text character contributes nothing ---- *)
  Lemma claim_string_or_empty_repr s cs : repr s cs -> rres (claim_string_or_empty s) (Ok cs).
  Proof.
    intros H. unfold claim_string_or_empty. rewrite (string_empty_repr _ _ H). cbn [bind].
    destruct cs; [apply repr_empty|exact H].
  Qed.
  Lemma char_to_string_all c : rres (char_to_string enc c) (Ok (s_char c)).
  Proof.
    unfold s_char. destruct (tchar c) eqn:Hc; [apply char_to_string_repr, Hc|].
    unfold char_to_string. destruct (text_char_other enc enc_ok c Hc) as (t & ->). cbn. apply repr_empty.
  Qed.
  Lemma string_char_verkettet_all s cs c : repr s cs -> rres (string_char_verkettet enc s c) (Ok (cs ++ s_char c)).
  Proof.
    intros H. unfold s_char. destruct (tchar c) eqn:Hc; [apply string_char_verkettet_repr; assumption|].
    unfold string_char_verkettet. destruct (text_char_other enc enc_ok c Hc) as (t & ->). cbn [bind Z.eqb].
    rewrite app_nil_r. apply claim_string_or_empty_repr, H.
  Qed.
  Lemma char_string_verkettet_all c s cs : repr s cs -> rres (char_string_verkettet enc c s) (Ok (s_char c ++ cs)).
  Proof.
    intros H. unfold s_char. destruct (tchar c) eqn:Hc; [apply char_string_verkettet_repr; assumption|].
    unfold char_string_verkettet. destruct (text_char_other enc enc_ok c Hc) as (t & ->). cbn [bind Z.eqb app].
    apply claim_string_or_empty_repr, H.
  Qed.

  (* ---- ddp_string_equal ------------------------------------------------------------------------------------ *)
  Lemma string_equal_repr same s1 s2 cs1 cs2 :
    repr s1 cs1 -> repr s2 cs2 -> (same = true -> cs1 = cs2) ->
    string_equal same s1 s2 = Ok (list_eqb cs1 cs2).
  Proof.
    intros H1 H2 Hsame. unfold string_equal.
    destruct same; [rewrite (Hsame eq_refl), list_eqb_refl; reflexivity|].
    rewrite (ddp_strlen_repr _ _ H1), (ddp_strlen_repr _ _ H2). cbn [bind].
    pose proof (repr_tchars _ _ H1) as T1. pose proof (repr_tchars _ _ H2) as T2.
    destruct (len (E cs1) =? len (E cs2)) eqn:L; cbn [negb].
    2:{ f_equal. symmetry. apply not_true_is_false. intros Heq. apply list_eqb_eq in Heq. subst cs2. lia. }
    destruct cs1 as [|c1 cs1], cs2 as [|c2 cs2].
    - reflexivity.
    - apply tchars_cons in T2. pose proof (len_E_pos c2 cs2 (proj1 T2)). change (E []) with (@nil Z) in L. rewrite len_nil in L. lia.
    - apply tchars_cons in T1. pose proof (len_E_pos c1 cs1 (proj1 T1)). change (E []) with (@nil Z) in L. rewrite len_nil in L. lia.
    - apply tchars_cons in T1 as T1'. pose proof (len_E_pos c1 cs1 (proj1 T1')). case_if.
      rewrite (repr_open _ _ _ H1), (repr_open _ _ _ H2). cbn [bytes cap].
      rewrite sub_prefix. cbn [bind].
      replace (len (E (c1 :: cs1))) with (len (E (c2 :: cs2))) by lia.
      rewrite sub_prefix. cbn [bind]. f_equal.
      destruct (list_eqb (c1 :: cs1) (c2 :: cs2)) eqn:Q.
      + apply list_eqb_eq in Q. rewrite Q. apply list_eqb_refl.
      + apply not_true_is_false. intros Heq. apply list_eqb_eq in Heq.
        apply E_inj in Heq; auto. rewrite Heq, list_eqb_refl in Q. discriminate Q.
  Qed.

  (* ---- text iteration -------------------------------------------------------------------------------------- *)
  Lemma string_iterate_repr s cs : repr s cs -> string_iterate dec s = Ok cs.
  Proof.
    intros H. destruct cs as [|c cs]; [destruct (repr_nil _ H) as [-> | ->]; reflexivity|].
    pose proof (repr_tchars _ _ H) as T. apply tchars_cons in T as T'. destruct T' as [Hc _].
    rewrite (repr_open _ _ _ H). unfold string_iterate. cbn [cap bytes].
    pose proof (len_E_pos c cs Hc). case_if.
    replace (len (E (c :: cs)) + 1 - 1) with (len (E ([] ++ c :: cs))) by (cbn [app]; lia).
    pose proof (iter_loop_E dec dec_ok (c :: cs) [] (S (length (E (c :: cs) ++ [0]))) T) as IL.
    cbn [E flat_map app len length] in IL |- *. apply IL.
    rewrite app_length. pose proof (clen_le_len_E _ T). unfold clen, len in *. cbn [length E flat_map] in *. lia.
  Qed.
End WithCodec.
