(* Rt/StrOps3.v — proofs, part 5: ddp_string_slice. *)
From Coq Require Import List ZArith Bool Lia ZifyBool.
Import ListNotations.
From DDP Require Import Rt.Str Rt.StrSpec Rt.StrBase Rt.StrUtf8 Rt.StrOps Rt.StrOps2.
Open Scope Z_scope.

Lemma clamp_range i n : 1 <= n -> 1 <= clamp i 1 n <= n.
Proof. intros. unfold clamp. repeat case_if. Qed.

(* an inclusive range a..b of a list: what is before, the range without its last element, the last
   element, what is after *)
Lemma range_split (L : list Z) a b :
  1 <= a -> a <= b -> b <= clen L ->
  exists c1 m x c3,
    L = c1 ++ m ++ x :: c3 /\ clen c1 = a - 1 /\ clen m = b - a /\
    firstn (Z.to_nat (b - a + 1)) (skipn (Z.to_nat (a - 1)) L) = m ++ [x].
Proof.
  intros Ha Hab Hb. unfold clen in *.
  set (c1 := firstn (Z.to_nat (a - 1)) L). set (R := skipn (Z.to_nat (a - 1)) L).
  set (mx := firstn (Z.to_nat (b - a + 1)) R). set (c3 := skipn (Z.to_nat (b - a + 1)) R).
  assert (HR : length R = (length L - Z.to_nat (a - 1))%nat) by apply skipn_length.
  assert (Hmx : length mx = Z.to_nat (b - a + 1)) by (apply firstn_length_le; lia).
  assert (Hne : mx <> []) by (intros E0; rewrite E0 in Hmx; cbn in Hmx; lia).
  destruct (exists_last Hne) as (m & x & Hm).
  exists c1, m, x, c3. repeat split.
  - rewrite <- (firstn_skipn (Z.to_nat (a - 1)) L). fold c1 R. f_equal.
    rewrite <- (firstn_skipn (Z.to_nat (b - a + 1)) R). fold mx c3. rewrite Hm, <- app_assoc. reflexivity.
  - unfold c1. rewrite firstn_length_le by lia. lia.
  - rewrite Hm, app_length in Hmx. cbn [length] in Hmx. lia.
  - exact Hm.
Qed.

Lemma slice_walk_first j c1 x' post' fuel :
  tchars (c1 ++ x' :: post') -> (length c1 < fuel)%nat ->
  slice_walk (E (c1 ++ x' :: post') ++ 0 :: j) 0 0 (clen c1) fuel = Ok (len (E c1), clen c1).
Proof.
  intros T Hf. exact (slice_walk_E j c1 [] x' post' fuel T Hf).
Qed.

Lemma string_slice_repr s cs i j : repr s cs -> rres (string_slice s i j) (s_slice cs i j).
Proof.
  intros H. unfold string_slice, s_slice. rewrite (string_empty_repr _ _ H). cbn [bind].
  destruct cs as [|c cs0]; [apply repr_empty|].
  set (L := c :: cs0) in *. rewrite (utf8_strlen_repr _ _ H). cbn [bind].
  pose proof (repr_tchars _ _ H) as T.
  assert (Hn : 1 <= clen L) by (unfold clen, L; cbn [length]; lia).
  pose proof (clamp_range i _ Hn) as Ha. pose proof (clamp_range j _ Hn) as Hb.
  set (a := clamp i 1 (clen L)) in *. set (b := clamp j 1 (clen L)) in *.
  destruct (b <? a) eqn:BA; [exact I|].
  destruct (range_split L a b) as (c1 & m & x & c3 & HL & Hc1 & Hm & Hfs); try lia.
  rewrite Hfs. unfold L in H. rewrite (repr_open _ _ _ H). fold L. cbn [bytes cap].
  assert (Tall : tchars (c1 ++ m ++ x :: c3)) by (rewrite <- HL; exact T).
  apply tchars_app in Tall as Tall'. destruct Tall' as [T1 Tmx]. apply tchars_app in Tmx as Tmx'.
  destruct Tmx' as [Tm Tx]. apply tchars_cons in Tx as Tx'. destruct Tx' as [Hx T3].
  (* first loop *)
  destruct (m ++ x :: c3) as [|x' post'] eqn:Q; [destruct m; discriminate Q|].
  replace (a - 1) with (clen c1) by lia.
  assert (W1 : slice_walk (E L ++ [0]) 0 0 (clen c1) (slice_fuel (E L ++ [0]) (clen c1)) = Ok (len (E c1), clen c1)).
  { rewrite HL. apply slice_walk_first; [exact Tall|]. unfold slice_fuel, clen. lia. }
  rewrite W1. cbn [bind].
  (* second loop *)
  replace (b - 1) with (clen c1 + clen m) by lia.
  assert (W2 : slice_walk (E L ++ [0]) (len (E c1)) (clen c1) (clen c1 + clen m) (slice_fuel (E L ++ [0]) (clen c1 + clen m))
               = Ok (len (E (c1 ++ m)), clen c1 + clen m)).
  { rewrite HL, <- Q. rewrite (E_app c1), <- app_assoc. apply slice_walk_E; [rewrite Q; exact Tmx|]. unfold slice_fuel, clen. lia. }
  rewrite W2. cbn [bind].
  assert (Hblk : E L ++ [0] = E (c1 ++ m) ++ E (x :: c3) ++ 0 :: []).
  { rewrite HL, <- Q. rewrite !E_app, <- !app_assoc. reflexivity. }
  rewrite Hblk, ptr_app. cbn [bind]. rewrite num_bytes_E by exact Hx. cbn [bind].
  assert (Hblk2 : E (c1 ++ m) ++ E (x :: c3) ++ [0] = E c1 ++ E (m ++ [x]) ++ (E c3 ++ [0])).
  { rewrite !E_app, E_one, E_cons, <- !app_assoc. reflexivity. }
  rewrite Hblk2.
  replace (len (E (c1 ++ m)) - len (E c1) + 1 + cp_len x - 1) with (len (E (m ++ [x])))
    by (rewrite !E_app, E_one; lens; lia).
  rewrite sub_app. cbn [bind].
  pose proof (cp_len_pos x). pose proof (len_nonneg (E m)).
  rewrite blit_fresh0 by (rewrite !E_app, E_one; lens; lia). cbn [bind].
  rewrite blit_fresh by (rewrite !E_app, E_one; lens; lia). cbn [bind rres].
  apply repr_intro.
  - apply tchars_app. split; [exact Tm|]. apply tchars_cons. split; [exact Hx|reflexivity].
  - destruct m; discriminate.
  - replace (len (E (c1 ++ m)) - len (E c1) + 1 + cp_len x - len (E (m ++ [x])) - len [0]) with 0
      by (rewrite !E_app, E_one; lens; lia).
    rewrite alloc_0, app_nil_r. reflexivity.
  - rewrite !E_app, E_one. lens. rewrite len_alloc by (lens; lia). lens. lia.
Qed.
