(* Rt/StrShrink.v — proofs, part 7: what ddp_replace_char_in_string still guarantees when the new
   character is SHORTER than the old one: the code points of the result are right, only the capacity
   (and with it the representation invariant) is not. *)
From Coq Require Import List ZArith Bool Lia ZifyBool.
Import ListNotations.
From DDP Require Import Rt.Str Rt.StrSpec Rt.StrBase Rt.StrUtf8 Rt.StrOps Rt.StrOps2 Rt.StrHistory.
Open Scope Z_scope.

Lemma blit_gen l off d : 0 <= off -> off + len d <= len l ->
  blit l off d = Ok (firstn (Z.to_nat off) l ++ d ++ skipn (Z.to_nat (off + len d)) l).
Proof. intros H1 H2. unfold blit. destruct ((off <? 0) || (len l <? off + len d)) eqn:G; [lia|reflexivity]. Qed.

Lemma cps_junk cs j : tchars cs -> cs <> [] -> forall cp, cps (mkstr (E cs ++ 0 :: j) cp) = Some cs.
Proof.
  intros T N cp. unfold cps, is_null. cbn [bytes].
  destruct (E cs ++ 0 :: j) as [|q0 q] eqn:Q; [destruct (E cs); discriminate Q|]. rewrite <- Q.
  rewrite c_string_nz by (apply E_bytes, T). apply decode_E, T.
Qed.

Section WithCodec.
  Variable enc : Z -> option (list Z).
  Hypothesis enc_ok : forall c, tchar c = true -> enc c = Some (utf8_enc c).

  Definition cps_res (r : res ddpstring) (e : res (list Z)) : Prop :=
    match r, e with
    | Ok s, Ok cs => cps s = Some cs
    | Err, Err => True
    | _, _ => False
    end.

  Lemma replace_char_cps s cs ch i :
    repr s cs -> tchar ch = true -> cps_res (replace_char_in_string enc s ch i) (s_replace cs ch i).
  Proof.
    intros H Hch.
    (* not shorter: the full refinement gives it *)
    destruct (s_index cs i) as [old| | | |] eqn:SI.
    2-5: (assert (Hg : forall o, s_index cs i = Ok o -> cp_len o <= cp_len ch) by (intros o Ho; congruence);
          pose proof (replace_char_repr enc enc_ok s cs ch i H Hch Hg) as R;
          destruct (replace_char_in_string enc s ch i), (s_replace cs ch i); cbn in R |- *; auto using repr_cps).
    destruct (cp_len old <=? cp_len ch) eqn:LE.
    { assert (Hg : forall o, s_index cs i = Ok o -> cp_len o <= cp_len ch) by (intros o Ho; rewrite SI in Ho; injection Ho as <-; lia).
      pose proof (replace_char_repr enc enc_ok s cs ch i H Hch Hg) as R.
      destruct (replace_char_in_string enc s ch i), (s_replace cs ch i); cbn in R |- *; auto using repr_cps. }
    (* shorter *)
    unfold s_index in SI. destruct ((1 <=? i) && (i <=? clen cs)) eqn:RG; [|discriminate SI]. injection SI as SI.
    unfold replace_char_in_string, s_replace. rewrite RG.
    destruct (i <? 1) eqn:I1; [lia|].
    destruct cs as [|c cs]; [cbn in RG; lia|].
    pose proof (repr_tchars _ _ H) as T. destruct (repr_cons _ _ _ H) as (_ & _ & Hc & Tcs).
    pose proof (clen_le_len_E _ T) as Hle. pose proof (len_E_pos c cs Hc) as Hpos.
    pose proof (repr_open _ _ _ H) as Hs. subst s. cbn [cap bytes].
    destruct ((len (E (c :: cs)) + 1 <? i) || (len (E (c :: cs)) + 1 <=? 1)) eqn:G; [lia|].
    rewrite index_walk_repr by exact T. cbn [bind].
    set (k := Z.to_nat (i - 1)) in *.
    destruct (split_at k (c :: cs)) as [(Sk & L & F)|(x & rest & Sk & L & N & F)]; [unfold clen in RG; lia|].
    assert (Hxo : x = old) by congruence. clear N. subst x.
    assert (Tx : tchars (old :: rest)).
    { rewrite <- Sk. rewrite <- (firstn_skipn k (c :: cs)) in T. apply tchars_app in T. apply T. }
    assert (Tpre : tchars (firstn k (c :: cs))).
    { rewrite <- (firstn_skipn k (c :: cs)) in T. apply tchars_app in T. apply T. }
    apply tchars_cons in Tx as Tx'. destruct Tx' as [Hx Trest].
    assert (Hcs : c :: cs = firstn k (c :: cs) ++ old :: rest) by (rewrite <- Sk; symmetry; apply firstn_skipn).
    replace (Z.to_nat i) with (S k) by lia.
    rewrite (skipn_S_of _ _ _ _ Sk).
    set (pre := firstn k (c :: cs)) in *.
    assert (Hblk : E (c :: cs) ++ [0] = E pre ++ utf8_enc old ++ (E rest ++ [0]))
      by (rewrite Hcs at 1; rewrite E_app, E_cons, <- !app_assoc; reflexivity).
    assert (Hcap : len (E (c :: cs)) + 1 = len (E pre) + cp_len old + len (E rest ++ [0])).
    { rewrite Hcs at 1. rewrite E_app, E_cons; lens; lia. }
    rewrite Hblk, Hcap.
    destruct (shape_head _ (enc_shape old Hx)) as (a & t & Ht & Ha & _).
    rewrite Ht at 1. cbn [app]. rewrite rd_app. cbn [bind]. case_if.
    rewrite ptr_app. cbn [bind].
    rewrite <- (app_nil_r (E rest ++ [0])) at 1. rewrite <- app_assoc.
    replace (utf8_enc old ++ E rest ++ [0] ++ []) with (E (old :: rest) ++ 0 :: []) by (rewrite E_cons, <- app_assoc; reflexivity).
    rewrite num_bytes_E by exact Hx. cbn [bind].
    rewrite (char_to_string_tmp enc enc_ok) by exact Hch. cbn [bind].
    pose proof (cp_len_pos ch). pose proof (cp_len_pos old). case_if. case_if. case_if.
    (* the old encoding split at the width of the new one *)
    set (o1 := firstn (Z.to_nat (cp_len ch)) (utf8_enc old)). set (o2 := skipn (Z.to_nat (cp_len ch)) (utf8_enc old)).
    assert (Ho : utf8_enc old = o1 ++ o2) by (symmetry; apply firstn_skipn).
    assert (Lo1 : len o1 = cp_len ch).
    { unfold o1, len. rewrite firstn_length_le; [lia|]. pose proof (enc_len old). unfold len in *. lia. }
    assert (Lo2 : len o2 = cp_len old - cp_len ch).
    { pose proof (enc_len old) as EL. rewrite Ho, len_app in EL. lia. }
    rewrite Ho, <- (app_assoc o1 o2).
    rewrite blit_app by (lens; lia). cbn [bind].
    replace (E pre ++ utf8_enc ch ++ o2 ++ E rest ++ [0]) with ((E pre ++ utf8_enc ch ++ o2) ++ (E rest ++ [0]) ++ [])
      by (rewrite app_nil_r, <- !app_assoc; reflexivity).
    replace (len (E pre) + cp_len old) with (len (E pre ++ utf8_enc ch ++ o2)) by (lens; lia).
    replace (len (E pre ++ utf8_enc ch ++ o2) + len (E rest ++ [0]) - len (E pre) - cp_len old) with (len (E rest ++ [0])) by (lens; lia).
    rewrite sub_app. cbn [bind].
    rewrite blit_gen by (pose proof (len_nonneg (E pre)); lens; lia). cbn [bind cps_res].
    replace (len (E pre) + cp_len ch) with (len (E pre ++ utf8_enc ch)) by (lens; lia).
    replace ((E pre ++ utf8_enc ch ++ o2) ++ (E rest ++ [0]) ++ []) with ((E pre ++ utf8_enc ch) ++ (o2 ++ E rest ++ [0]))
      by (rewrite app_nil_r, <- !app_assoc; reflexivity).
    rewrite firstn_len_app.
    replace ((E pre ++ utf8_enc ch) ++ (E rest ++ [0]) ++ skipn (Z.to_nat (len (E pre ++ utf8_enc ch) + len (E rest ++ [0]))) ((E pre ++ utf8_enc ch) ++ o2 ++ E rest ++ [0]))
      with (E (pre ++ ch :: rest) ++ 0 :: skipn (Z.to_nat (len (E pre ++ utf8_enc ch) + len (E rest ++ [0]))) ((E pre ++ utf8_enc ch) ++ o2 ++ E rest ++ [0]))
      by (rewrite E_app, E_cons, <- !app_assoc; reflexivity).
    apply cps_junk.
    - apply tchars_app. split; [exact Tpre|]. apply tchars_cons. split; assumption.
    - destruct pre; discriminate.
  Qed.
End WithCodec.
