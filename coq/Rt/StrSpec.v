(* Rt/StrSpec.v — the specification side of C12: a Text is a list of code points.
   Standard UTF-8 (encoder on scalar values, strict decoder), the concrete codec with which the
   model is run (what glibc's c32rtomb / mbrtoc32 do in a UTF-8 locale; compared with libc on every
   run by checks/c12.py), the abstraction [cps] from the byte/capacity representation to code
   points, and the operations on code-point lists.  Definitions only. *)
From Coq Require Import List ZArith Bool.
Import ListNotations.
From DDP Require Import Rt.Str.
Open Scope Z_scope.

(* ---- Unicode scalar values and their standard UTF-8 encoding -------------------------------- *)
Definition scalarb (c : Z) : bool :=
  ((0 <=? c) && (c <? 0xD800)) || ((0xE000 <=? c) && (c <=? 0x10FFFF)).
(* a character that a NUL-terminated Text can hold: every scalar value except U+0000 *)
Definition tchar (c : Z) : bool := scalarb c && negb (c =? 0).

Definition utf8_enc (c : Z) : list Z :=
  if c <? 0x80 then [c]
  else if c <? 0x800 then [0xC0 + c / 64; 0x80 + c mod 64]
  else if c <? 0x10000 then [0xE0 + c / 4096; 0x80 + (c / 64) mod 64; 0x80 + c mod 64]
  else [0xF0 + c / 262144; 0x80 + (c / 4096) mod 64; 0x80 + (c / 64) mod 64; 0x80 + c mod 64].

(* number of bytes of the encoding, on the code-point level *)
Definition cp_len (c : Z) : Z :=
  if c <? 0x80 then 1 else if c <? 0x800 then 2 else if c <? 0x10000 then 3 else 4.

Definition E (cs : list Z) : list Z := flat_map utf8_enc cs.

(* ---- the concrete codec (glibc, UTF-8 locale) ------------------------------------------------- *)
(* c32rtomb: the argument is converted to char32_t; values above 0x7fffffff (negative ddpchar) and
   surrogates fail; glibc still produces the historical 4..6-byte forms above U+10FFFF *)
Definition glibc_enc (c : Z) : option (list Z) :=
  if c <? 0 then None
  else if (0xD800 <=? c) && (c <=? 0xDFFF) then None
  else if c <? 0x200000 then Some (utf8_enc c)
  else if c <? 0x4000000 then
    Some [0xF8 + c / 16777216; 0x80 + (c / 262144) mod 64; 0x80 + (c / 4096) mod 64;
          0x80 + (c / 64) mod 64; 0x80 + c mod 64]
  else
    Some [0xFC + c / 1073741824; 0x80 + (c / 16777216) mod 64; 0x80 + (c / 262144) mod 64;
          0x80 + (c / 4096) mod 64; 0x80 + (c / 64) mod 64; 0x80 + c mod 64].

Definition contb (b : Z) : bool := (0x80 <=? b) && (b <? 0xC0).

(* mbrtoc32 on exactly the bytes given (1..4 of them, as utf8_num_bytes selects): strict about
   overlong forms and surrogates, but 4-byte forms up to 0x1FFFFF are accepted *)
Definition glibc_dec (bs : list Z) : option Z :=
  match bs with
  | [a] => if (0 <=? a) && (a <? 0x80) then Some a else None
  | [a; b] =>
      if (0xC2 <=? a) && (a <? 0xE0) && contb b then Some ((a - 0xC0) * 64 + (b - 0x80)) else None
  | [a; b; c] =>
      if (0xE0 <=? a) && (a <? 0xF0) && contb b && contb c then
        let v := (a - 0xE0) * 4096 + (b - 0x80) * 64 + (c - 0x80) in
        if (v <? 0x800) || ((0xD800 <=? v) && (v <=? 0xDFFF)) then None else Some v
      else None
  | [a; b; c; d] =>
      if (0xF0 <=? a) && (a <? 0xF8) && contb b && contb c && contb d then
        let v := (a - 0xF0) * 262144 + (b - 0x80) * 4096 + (c - 0x80) * 64 + (d - 0x80) in
        if v <? 0x10000 then None else Some v
      else None
  | _ => None
  end.

(* ---- abstraction: the code points of a byte string --------------------------------------------- *)
Definition lead_len (a : Z) : nat :=
  if a <? 0x80 then 1 else if a <? 0xC0 then 0 else if a <? 0xE0 then 2
  else if a <? 0xF0 then 3 else if a <? 0xF8 then 4 else 0.

(* strict decoding of a whole byte string into text characters; None = not the UTF-8 encoding of
   a sequence of non-NUL scalar values *)
Fixpoint decode_all (fuel : nat) (l : list Z) : option (list Z) :=
  match l with
  | [] => Some []
  | a :: _ =>
    match fuel with
    | O => None
    | S f =>
      match lead_len a with
      | O => None
      | n =>
        match glibc_dec (firstn n l) with
        | Some c =>
          if tchar c then
            match decode_all f (skipn n l) with Some r => Some (c :: r) | None => None end
          else None
        | None => None
        end
      end
    end
  end.
Definition decode (l : list Z) : option (list Z) := decode_all (length l) l.

(* the code-point view of a ddpstring: decode the bytes before the first NUL; NULL is the empty text *)
Definition cps (s : ddpstring) : option (list Z) :=
  if is_null s then Some []
  else match c_string (bytes s) with Ok t => decode t | _ => None end.

(* the representation invariant: s holds exactly the text cs *)
Definition repr (s : ddpstring) (cs : list Z) : Prop :=
  forallb tchar cs = true /\
  ((cs = [] /\ s = empty_string) \/ (cs = [] /\ s = owned_empty) \/
   (cs <> [] /\ bytes s = E cs ++ [0] /\ cap s = len (bytes s))).
(* well-formed: capacity = byte length + 1, valid UTF-8 up to the single terminator at the end; the
   empty text is {NULL, 0} or — from C producers outside the runtime — an allocated {"\0", 1} *)
Definition wf (s : ddpstring) : Prop := exists cs, repr s cs.

(* ---- operations on code-point lists -------------------------------------------------------------- *)
Definition clen (cs : list Z) : Z := Z.of_nat (length cs).

Definition s_index (cs : list Z) (i : Z) : res Z :=
  if (1 <=? i) && (i <=? clen cs) then Ok (nth (Z.to_nat (i - 1)) cs 0) else Err.

Definition s_replace (cs : list Z) (c : Z) (i : Z) : res (list Z) :=
  if (1 <=? i) && (i <=? clen cs)
  then Ok (firstn (Z.to_nat (i - 1)) cs ++ c :: skipn (Z.to_nat i) cs) else Err.

(* both indices are clamped into 1..length, an inverted range is a Laufzeitfehler, the empty text
   has only the empty slice *)
Definition s_slice (cs : list Z) (i j : Z) : res (list Z) :=
  match cs with
  | [] => Ok []
  | _ =>
    let a := clamp i 1 (clen cs) in
    let b := clamp j 1 (clen cs) in
    if b <? a then Err
    else Ok (firstn (Z.to_nat (b - a + 1)) (skipn (Z.to_nat (a - 1)) cs))
  end.

(* what a Buchstabe contributes to a Text: itself, or nothing when it cannot be stored (not a scalar
   value, or U+0000) *)
Definition s_char (c : Z) : list Z := if tchar c then [c] else [].

Definition sreg := get (@nil Z).

Definition sstep (st : list (list Z)) (o : op) : res (list (list Z) * obs) :=
  match o with
  | OLit r bs => match decode bs with Some cs => Ok (upd st r cs, VNone) | None => Undef end
  | OCopy r a => Ok (upd st r (sreg st a), VNone)
  | OConcat r a b => Ok (upd st r (sreg st a ++ sreg st b), VNone)
  | OConcatSC r a c => Ok (upd st r (sreg st a ++ s_char c), VNone)
  | OConcatCS r c a => Ok (upd st r (s_char c ++ sreg st a), VNone)
  | OSlice r a i j => v <- s_slice (sreg st a) i j ;; Ok (upd st r v, VNone)
  | OCharToString r c => Ok (upd st r (s_char c), VNone)
  | OReplace r c i => v <- (if tchar c then s_replace (sreg st r) c i else Err) ;; Ok (upd st r v, VNone)
  | OEmptyOwned r => Ok (upd st r [], VNone)
  | OIndex a i => c <- s_index (sreg st a) i ;; Ok (st, VInt c)
  | OLength a => Ok (st, VInt (clen (sreg st a)))
  | OEqual a b => Ok (st, VBool (list_eqb (sreg st a) (sreg st b)))
  | OIter a => Ok (st, VChars (sreg st a))
  | OPrint a => Ok (st, VChars (E (sreg st a)))
  end.

Fixpoint srun (st : list (list Z)) (ops : list op) : list obs * res (list (list Z)) :=
  match ops with
  | [] => ([], Ok st)
  | o :: rest =>
    match sstep st o with
    | Ok (st', v) => let '(vs, fin) := srun st' rest in (v :: vs, fin)
    | Err => ([], Err)
    | OOB => ([], OOB)
    | Undef => ([], Undef)
    | Stuck => ([], Stuck)
    end
  end.

Definition sinit : list (list Z) := repeat [] NREG.

(* the only side condition on an operation: a literal is the UTF-8 encoding of a text.  Characters
   are arbitrary ddpchar values *)
Definition in_text (o : op) : bool :=
  match o with
  | OLit _ bs => match decode bs with Some _ => true | None => false end
  | _ => true
  end.
(* all operations of a history satisfy a state-dependent guard along the specification run *)
Fixpoint along (g : list (list Z) -> op -> bool) (st : list (list Z)) (ops : list op) : bool :=
  match ops with
  | [] => true
  | o :: rest =>
    g st o &&
    match sstep st o with
    | Ok (st', _) => along g st' rest
    | _ => true
    end
  end.

(* model with the concrete codec: what is extracted and run against the implementation *)
Definition m_step := step glibc_enc glibc_dec.
Definition m_run := run glibc_enc glibc_dec.
Definition m_char_to_string := char_to_string glibc_enc.
Definition m_string_to_char := utf8_string_to_char glibc_dec.
