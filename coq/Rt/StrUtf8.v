(* Rt/StrUtf8.v — proofs, part 2: what the functions of utf8.c and the walking loops of operators.c /
   compiler.go compute on a block that holds the encoding of a text followed by a terminator. *)
From Coq Require Import List ZArith Bool Lia ZifyBool.
Import ListNotations.
From DDP Require Import Rt.Str Rt.StrSpec Rt.StrBase.
Open Scope Z_scope.

Ltac case_if :=
  match goal with
  | |- context [if ?c then _ else _] => let H := fresh "C" in destruct c eqn:H; try lia
  end.

Definition nz (b : Z) : Prop := 1 <= b < 256.

Lemma c_strlen_nz l j : Forall nz l -> c_strlen (l ++ 0 :: j) = Ok (len l).
Proof.
  induction 1 as [|b l Hb Hl IH]; [reflexivity|].
  cbn [app c_strlen]. unfold nz in Hb. case_if. rewrite IH. cbn [bind]. rewrite len_cons. f_equal. lia.
Qed.
Lemma c_string_nz l j : Forall nz l -> c_string (l ++ 0 :: j) = Ok l.
Proof.
  induction 1 as [|b l Hb Hl IH]; [reflexivity|].
  cbn [app c_string]. unfold nz in Hb. case_if. rewrite IH. reflexivity.
Qed.

Lemma cont_true b : 0x80 <= b < 0xC0 -> utf8_is_continuation b = true.
Proof. intros. rewrite cont_byte by lia. unfold contb. lia. Qed.
Lemma cont_false b : (0 <= b < 0x80 \/ 0xC0 <= b < 256) -> utf8_is_continuation b = false.
Proof. intros. rewrite cont_byte by lia. unfold contb. lia. Qed.

Lemma utf8_strlen_shape bs r :
  shape bs -> utf8_strlen_ptr (bs ++ r) = n <- utf8_strlen_ptr r ;; Ok (n + 1).
Proof.
  destruct 1 as [a Ha|a b Ha Hb|a b c Ha Hb Hc|a b c d Ha Hb Hc Hd]; cbn [app utf8_strlen_ptr];
    repeat match goal with |- context [?x =? 0] => replace (x =? 0) with false by lia end;
    destruct (utf8_strlen_ptr r) as [n| | | |]; cbn [bind]; try reflexivity;
    rewrite (cont_false a) by lia.
  - reflexivity.
  - rewrite (cont_true b) by lia. reflexivity.
  - rewrite (cont_true b), (cont_true c) by lia. reflexivity.
  - rewrite (cont_true b), (cont_true c), (cont_true d) by lia. reflexivity.
Qed.

Lemma utf8_strlen_E cs j : tchars cs -> utf8_strlen_ptr (E cs ++ 0 :: j) = Ok (clen cs).
Proof.
  induction cs as [|c cs IH]; intros H; [reflexivity|].
  apply tchars_cons in H. destruct H as [Hc Hcs].
  rewrite E_cons, <- app_assoc, utf8_strlen_shape by (apply enc_shape, Hc).
  rewrite IH by exact Hcs. cbn [bind]. unfold clen. cbn [length]. f_equal. lia.
Qed.

Lemma nb_len_ge l : In 0 l -> forall k, exists m, nb_len l k = Ok m /\ k <= m.
Proof.
  induction l as [|b l IH]; intros Hin k; [destruct Hin|].
  cbn [nb_len]. destruct (b =? 0) eqn:B; [exists k; split; [reflexivity|lia]|].
  destruct (k <? 4) eqn:K; [|exists k; split; [reflexivity|lia]].
  destruct Hin as [->|Hin]; [discriminate B|].
  destruct (IH Hin (k + 1)) as (m & Hm & Hk). exists m. split; [exact Hm|lia].
Qed.

Lemma num_bytes_shape bs r : shape bs -> In 0 r -> utf8_num_bytes (bs ++ r) = Ok (len bs).
Proof.
  intros S Hin. destruct S as [a Ha|a b Ha Hb|a b c Ha Hb Hc|a b c d Ha Hb Hc Hd];
    cbn [app]; unfold utf8_num_bytes; cbn [nb_len]; repeat case_if.
  - destruct (nb_len_ge r Hin (0 + 1)) as (m & -> & Hm). cbn [bind].
    unfold andr at 1. cbn [bind]. case_if. unfold utf8_is_single_byte. rewrite rd_0. cbn [bind].
    rewrite land80_byte by lia. case_if. reflexivity.
  - destruct (nb_len_ge r Hin (0 + 1 + 1)) as (m & -> & Hm). cbn [bind].
    unfold andr at 1. cbn [bind]. case_if. unfold utf8_is_single_byte. rewrite rd_0. cbn [bind].
    rewrite land80_byte by lia. case_if.
    unfold andr at 1. cbn [bind]. case_if. unfold utf8_is_double_byte, andr. rewrite rd_0, rd_1. cbn [bind].
    rewrite landE0_byte by lia. case_if. rewrite cont_true by lia. reflexivity.
  - destruct (nb_len_ge r Hin (0 + 1 + 1 + 1)) as (m & -> & Hm). cbn [bind].
    unfold andr at 1. cbn [bind]. case_if. unfold utf8_is_single_byte. rewrite rd_0. cbn [bind].
    rewrite land80_byte by lia. case_if.
    unfold andr at 1. cbn [bind]. case_if. unfold utf8_is_double_byte, andr at 1. rewrite rd_0. cbn [bind].
    rewrite landE0_byte by lia. case_if.
    unfold andr at 1. cbn [bind]. case_if. unfold utf8_is_triple_byte, andr. rewrite rd_0, rd_1, rd_2. cbn [bind].
    rewrite landF0_byte by lia. case_if. rewrite !cont_true by lia. reflexivity.
  - destruct (nb_len_ge r Hin (0 + 1 + 1 + 1 + 1)) as (m & -> & Hm). cbn [bind].
    unfold andr at 1. cbn [bind]. case_if. unfold utf8_is_single_byte. rewrite rd_0. cbn [bind].
    rewrite land80_byte by lia. case_if.
    unfold andr at 1. cbn [bind]. case_if. unfold utf8_is_double_byte, andr at 1. rewrite rd_0. cbn [bind].
    rewrite landE0_byte by lia. case_if.
    unfold andr at 1. cbn [bind]. case_if. unfold utf8_is_triple_byte, andr at 1. rewrite rd_0. cbn [bind].
    rewrite landF0_byte by lia. case_if.
    unfold andr at 1. cbn [bind]. case_if. unfold utf8_is_quadruple_byte, andr. rewrite rd_0, rd_1, rd_2, rd_3. cbn [bind].
    rewrite landF8_byte by lia. case_if. rewrite !cont_true by lia. reflexivity.
Qed.

Lemma in0_term l j : In 0 (l ++ 0 :: j).
Proof. apply in_or_app. right. left. reflexivity. Qed.

Lemma num_bytes_E c cs j : tchar c = true -> utf8_num_bytes (E (c :: cs) ++ 0 :: j) = Ok (cp_len c).
Proof.
  intros Hc. rewrite E_cons, <- app_assoc, num_bytes_shape; [rewrite enc_len; reflexivity|apply enc_shape, Hc|apply in0_term].
Qed.

Lemma E_len_pos c cs : tchar c = true -> len (E cs) < len (E (c :: cs)).
Proof.
  intros Hc. rewrite E_cons, len_app. pose proof (shape_len _ (enc_shape c Hc)). lia.
Qed.
Lemma cp_len_pos c : 1 <= cp_len c <= 4.
Proof. unfold cp_len. repeat case_if. Qed.

Lemma E_shift pre c post r : E (pre ++ [c]) ++ E post ++ r = E pre ++ E (c :: post) ++ r.
Proof. rewrite E_app, E_one, (E_cons c post), <- !app_assoc. reflexivity. Qed.
Lemma len_E_snoc pre c : len (E (pre ++ [c])) = len (E pre) + cp_len c.
Proof. rewrite E_app, E_one, len_app, enc_len. reflexivity. Qed.

Section WithDec.
  Variable dec : list Z -> option Z.
  Hypothesis dec_ok : forall c, tchar c = true -> dec (utf8_enc c) = Some c.

  Lemma string_to_char_E c cs j :
    tchar c = true -> utf8_string_to_char dec (E (c :: cs) ++ 0 :: j) = Ok (cp_len c, Some c).
  Proof.
    intros Hc. unfold utf8_string_to_char. rewrite num_bytes_E by exact Hc. cbn [bind].
    pose proof (cp_len_pos c). case_if. rewrite E_cons, <- app_assoc, <- enc_len, firstn_len_app, dec_ok by exact Hc.
    reflexivity.
  Qed.

  (* the index loop of ddp_string_index / ddp_replace_char_in_string: k characters forward, or to the
     terminator *)
  Lemma index_walk_E j : forall k pre post, tchars post ->
    index_walk (E pre ++ E post ++ 0 :: j) (len (E pre)) k = Ok (len (E (pre ++ firstn k post))).
  Proof.
    induction k as [|k IH]; intros pre post Hp.
    - cbn [index_walk firstn]. rewrite app_nil_r.
      destruct post as [|c post]; [cbn [E flat_map app]; rewrite rd_app; reflexivity|].
      apply tchars_cons in Hp. destruct Hp as [Hc Hp].
      destruct (E_nonempty c post Hc) as (a & t & -> & Ha). cbn [app]. rewrite rd_app. reflexivity.
    - destruct post as [|c post].
      + cbn [index_walk firstn E flat_map app]. rewrite rd_app. cbn [bind]. rewrite app_nil_r. reflexivity.
      + apply tchars_cons in Hp. destruct Hp as [Hc Hp]. cbn [index_walk].
        destruct (E_nonempty c post Hc) as (a & t & Ht & Ha). rewrite Ht. cbn [app]. rewrite rd_app. cbn [bind].
        case_if. replace (a :: t ++ 0 :: j) with (E (c :: post) ++ 0 :: j) by (rewrite Ht; reflexivity).
        rewrite ptr_app. cbn [bind]. rewrite num_bytes_E by exact Hc. cbn [bind].
        rewrite <- E_shift, <- len_E_snoc.
        rewrite IH by exact Hp. cbn [firstn]. rewrite <- app_assoc. reflexivity.
  Qed.

  (* the loops of ddp_string_slice walk by utf8_indicated_num_bytes of the lead byte *)
  Lemma slice_walk_E j : forall mid pre x post fuel, tchars (mid ++ x :: post) -> (length mid < fuel)%nat ->
    slice_walk (E pre ++ E (mid ++ x :: post) ++ 0 :: j) (len (E pre)) (clen pre) (clen pre + clen mid) fuel
    = Ok (len (E (pre ++ mid)), clen pre + clen mid).
  Proof.
    induction mid as [|c mid IH]; intros pre x post fuel Hp Hf.
    - destruct fuel as [|f]; [lia|]. cbn [app] in *. apply tchars_cons in Hp. destruct Hp as [Hx Hp].
      cbn [slice_walk]. destruct (E_nonempty x post Hx) as (a & t & -> & Ha). cbn [app]. rewrite rd_app. cbn [bind].
      unfold clen at 3. cbn [length]. rewrite app_nil_r.
      replace ((a =? 0) || (clen pre =? clen pre + Z.of_nat 0)) with true by lia. unfold clen. cbn [length].
      repeat f_equal; lia.
    - destruct fuel as [|f]; [lia|]. cbn [app length] in *. apply tchars_cons in Hp. destruct Hp as [Hc Hp].
      cbn [slice_walk].
      destruct (shape_head _ (enc_shape c Hc)) as (a & t & Ht & Ha & Hcl & _).
      rewrite E_cons, Ht. cbn [app]. rewrite rd_app. cbn [bind].
      replace ((a =? 0) || (clen pre =? clen pre + clen (c :: mid))) with false by (unfold clen; cbn [length]; lia).
      rewrite indicated_byte, Hcl by lia.
      match goal with |- slice_walk ?blk ?i _ _ _ = _ =>
        replace blk with (E (pre ++ [c]) ++ E (mid ++ x :: post) ++ 0 :: j)
          by (rewrite E_shift, E_cons, Ht; cbn [app]; rewrite <- ?app_assoc; reflexivity);
        replace i with (len (E (pre ++ [c]))) by (rewrite len_E_snoc, <- enc_len; reflexivity)
      end.
      replace (clen pre + 1) with (clen (pre ++ [c])) by (unfold clen; rewrite app_length; cbn [length]; lia).
      replace (clen pre + clen (c :: mid)) with (clen (pre ++ [c]) + clen mid)
        by (unfold clen; rewrite app_length; cbn [length]; lia).
      rewrite IH by (auto; lia). rewrite <- app_assoc. reflexivity.
  Qed.

  (* the loop the compiler emits for `Für jeden Buchstaben b in t` *)
  Lemma iter_loop_E : forall post pre fuel, tchars post -> (length post < fuel)%nat ->
    iter_loop dec (E pre ++ E post ++ [0]) (len (E pre)) (len (E (pre ++ post))) fuel = Ok post.
  Proof.
    induction post as [|c post IH]; intros pre fuel Hp Hf; (destruct fuel as [|f]; [lia|]).
    - cbn [iter_loop]. rewrite app_nil_r, Z.eqb_refl. reflexivity.
    - apply tchars_cons in Hp. destruct Hp as [Hc Hp]. cbn [length] in Hf. cbn [iter_loop].
      pose proof (E_len_pos c post Hc). pose proof (len_nonneg (E post)).
      rewrite (E_app pre (c :: post)), len_app. case_if.
      rewrite ptr_app. cbn [bind].
      destruct (E_nonempty c post Hc) as (a & t & Ht & Ha).
      destruct (E (c :: post) ++ [0]) as [|q0 q] eqn:Q; [rewrite Ht in Q; discriminate Q|]. rewrite <- Q.
      rewrite string_to_char_E by exact Hc. cbn [bind]. pose proof (cp_len_pos c). case_if.
      rewrite <- E_shift, <- len_E_snoc.
      replace (len (E pre) + len (E (c :: post))) with (len (E ((pre ++ [c]) ++ post)))
        by (rewrite <- app_assoc, E_app, len_app; reflexivity).
      rewrite IH by (auto; lia). reflexivity.
  Qed.
End WithDec.
