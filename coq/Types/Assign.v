(* The positions in which the typechecker decides whether a value of one type may be supplied where
   another is required (src/parser/typechecker/typechecker.go): VisitVarDecl (125-146),
   VisitAssignStmt (716-733), VisitCastExpr (513-587, without user-declared cast overloads) and
   VisitCastAssigneable (589-607).  `true` = no diagnostic is issued.  Definitions only. *)
From Coq Require Import List NArith Bool.
Import ListNotations.
From DDP Require Import Types.Ty.
Open Scope N_scope.

(* isOneOf *)
Definition is_one_of (t : ty) (ts : list ty) : bool := existsb (equal t) ts.

(* VisitVarDecl: t = decl.Type, v = initialType (VoidType{} without an initialiser)
     typesDontMatch := !IsGeneric(decl.Type) && !Equal(initialType, decl.Type) &&
                       (!Equal(decl.Type, VARIABLE) || Equal(initialType, VoidType{}))
     numericCastPossible := IsNumeric(decl.Type) && IsNumeric(initialType)
     error iff typesDontMatch && !numericCastPossible *)
Definition init_ok (t v : ty) : bool :=
  let types_dont_match := negb (is_generic t) && negb (equal v t) && (negb (equal t Any) || equal v Void) in
  let numeric_cast_possible := is_numeric t && is_numeric v in
  negb (types_dont_match && negb numeric_cast_possible).

(* VisitAssignStmt: t = target, v = rhs
     typesDontMatch := !Equal(target, rhs) && (!Equal(target, VARIABLE) || Equal(rhs, VoidType{})) *)
Definition assign_ok (t v : ty) : bool :=
  let types_dont_match := negb (equal t v) && (negb (equal t Any) || equal v Void) in
  let numeric_cast_possible := is_numeric t && is_numeric v in
  negb (types_dont_match && negb numeric_cast_possible).

(* the special rules for conversions to a primitive type *)
Definition cast_prim_ok (lhs : ty) (p : prim) : bool :=
  match p with
  | PZahl => is_primitive lhs
  | PKommazahl => is_primitive lhs && is_one_of lhs [Prim PText; Prim PZahl; Prim PKommazahl; Prim PByte]
  | PByte => is_primitive lhs && is_one_of lhs [Prim PZahl; Prim PKommazahl; Prim PByte]
  | PWahrheitswert => is_primitive lhs && is_one_of lhs [Prim PZahl; Prim PWahrheitswert; Prim PByte]
  | PBuchstabe => is_primitive lhs && is_one_of lhs [Prim PZahl; Prim PBuchstabe; Prim PByte]
  | PText => is_primitive lhs
  end.

(* VisitCastExpr: `lhs als target` *)
Definition cast_ok (lhs target : ty) : bool :=
  if is_any lhs || (is_any target && negb (is_void lhs)) then true
  else match cast_type_def target, cast_type_def lhs with
       | Some tu, Some lu => equal lu target || equal tu lhs
       | Some tu, None => equal lhs tu
       | None, Some lu => equal target lu
       | None, None =>
         if is_list target then is_one_of lhs [underlying (list_elem target)]
         else match cast_primitive target with
              | Some p => cast_prim_ok lhs p
              | None => false
              end
       end.

(* VisitCastAssigneable: `x als target` where a reference / assignment target is expected
     valid := Equal(TrueUnderlying(lhs), TrueUnderlying(target))
     if valid && (isTargetTypeDef || isLhsTypeDef) && !Equal(lhs, target) {
        valid = (isTargetTypeDef && Equal(lhs, targetTypeDef.Underlying)) || (isLhsTypeDef && Equal(target, lhsTypeDef.Underlying)) } *)
Definition cast_assignable_ok (lhs target : ty) : bool :=
  let valid := equal (true_underlying lhs) (true_underlying target) in
  let td := cast_type_def target in
  let ld := cast_type_def lhs in
  let is_some (o : option ty) := match o with Some _ => true | None => false end in
  if valid && (is_some td || is_some ld) && negb (equal lhs target)
  then (match td with Some tu => equal lhs tu | None => false end) || (match ld with Some lu => equal target lu | None => false end)
  else valid.

(* VisitFuncCall, per argument: `param` is the declared parameter type, `is_ref` whether it is a Referenz
   parameter, `assignable` whether the argument expression is an ast.Assigneable (a name, an indexing, a field
   access, a reference cast), `text_index` whether it is an indexing into a Text.
     if paramType.IsReference && !assignable                                  -> TYP_EXPECTED_REFERENCE
     else if paramType.IsReference && Equal(paramType.Type, BUCHSTABE) && text_index -> TYP_INVALID_REFERENCE
     if !Equal(argType, paramType.Type)                                       -> TYP_TYPE_MISMATCH
   (the alias matching of the parser uses the same Equal test, so a mismatching call ends here) *)
Definition arg_ok (is_ref assignable text_index : bool) (param arg : ty) : bool :=
  negb (is_ref && negb assignable) &&
  negb (is_ref && assignable && equal param (Prim PBuchstabe) && text_index) &&
  equal arg param.

(* VisitReturnStmt: `ret` = stmt.Func.ReturnType, `v` = type of the returned expression (VoidType{} for a
   bare `Gib zurück`-less return, has_value = false)
     returnsVoidValue := stmt.Value != nil && IsVoid(returnType)
     error iff returnsVoidValue || !Equal(ret, v) && (!Equal(ret, VARIABLE) || Equal(v, VoidType{})) *)
Definition return_ok (has_value : bool) (ret v : ty) : bool :=
  let returns_void_value := has_value && is_void v in
  negb (returns_void_value || (negb (equal ret v) && (negb (equal ret Any) || equal v Void))).
