(* The positions in which the typechecker decides whether a value of one type may be supplied where
   another is required (src/parser/typechecker/typechecker.go): VisitVarDecl (125-146),
   VisitAssignStmt (716-733), VisitCastExpr (513-587, without user-declared cast overloads) and
   VisitCastAssigneable (589-607).  `true` = no diagnostic is issued.  Definitions only. *)
From Coq Require Import List NArith Bool.
Import ListNotations.
From DDP Require Import Types.Ty.
Open Scope N_scope.

(* isOneOf *)
Definition is_one_of (t : ty) (ts : list ty) : bool := existsb (equal t) ts.

(* VisitVarDecl: t = decl.Type, v = initialType (VoidType{} without an initialiser)
     typesDontMatch := !IsGeneric(decl.Type) && !Equal(initialType, decl.Type) &&
                       (!Equal(decl.Type, VARIABLE) || Equal(initialType, VoidType{}))
     numericCastPossible := IsNumeric(decl.Type) && IsNumeric(initialType)
     error iff typesDontMatch && !numericCastPossible *)
Definition init_ok (t v : ty) : bool :=
  let types_dont_match := negb (is_generic t) && negb (equal v t) && (negb (equal t Any) || equal v Void) in
  let numeric_cast_possible := is_numeric t && is_numeric v in
  negb (types_dont_match && negb numeric_cast_possible).

(* VisitAssignStmt: t = target, v = rhs
     typesDontMatch := !Equal(target, rhs) && (!Equal(target, VARIABLE) || Equal(rhs, VoidType{})) *)
Definition assign_ok (t v : ty) : bool :=
  let types_dont_match := negb (equal t v) && (negb (equal t Any) || equal v Void) in
  let numeric_cast_possible := is_numeric t && is_numeric v in
  negb (types_dont_match && negb numeric_cast_possible).

(* the special rules for conversions to a primitive type *)
Definition cast_prim_ok (lhs : ty) (p : prim) : bool :=
  match p with
  | PZahl => is_primitive lhs
  | PKommazahl => is_primitive lhs && is_one_of lhs [Prim PText; Prim PZahl; Prim PKommazahl; Prim PByte]
  | PByte => is_primitive lhs && is_one_of lhs [Prim PZahl; Prim PKommazahl; Prim PByte]
  | PWahrheitswert => is_primitive lhs && is_one_of lhs [Prim PZahl; Prim PWahrheitswert; Prim PByte]
  | PBuchstabe => is_primitive lhs && is_one_of lhs [Prim PZahl; Prim PBuchstabe; Prim PByte]
  | PText => is_primitive lhs
  end.

(* VisitCastExpr: `lhs als target` *)
Definition cast_ok (lhs target : ty) : bool :=
  if is_any lhs || (is_any target && negb (is_void lhs)) then true
  else match cast_type_def target, cast_type_def lhs with
       | Some tu, Some lu => equal lu target || equal tu lhs
       | Some tu, None => equal lhs tu
       | None, Some lu => equal target lu
       | None, None =>
         if is_list target then is_one_of lhs [underlying (list_elem target)]
         else match cast_primitive target with
              | Some p => cast_prim_ok lhs p
              | None => false
              end
       end.

(* VisitCastAssigneable: `x als target` where a reference / assignment target is expected
     valid := Equal(TrueUnderlying(lhs), TrueUnderlying(target))
     if valid && (isTargetTypeDef || isLhsTypeDef) && !Equal(lhs, target) {
        valid = (isTargetTypeDef && Equal(lhs, targetTypeDef.Underlying)) || (isLhsTypeDef && Equal(target, lhsTypeDef.Underlying)) } *)
Definition cast_assignable_ok (lhs target : ty) : bool :=
  let valid := equal (true_underlying lhs) (true_underlying target) in
  let td := cast_type_def target in
  let ld := cast_type_def lhs in
  let is_some (o : option ty) := match o with Some _ => true | None => false end in
  if valid && (is_some td || is_some ld) && negb (equal lhs target)
  then (match td with Some tu => equal lhs tu | None => false end) || (match ld with Some lu => equal target lu | None => false end)
  else valid.
