(* Initialisation / assignment / conversion rules (model: Assign.v). *)
From Coq Require Import List NArith Bool Lia.
Import ListNotations.
From DDP Require Import Types.Ty Types.TyProofs Types.Assign.
Open Scope N_scope.

Lemma is_any_equal t : is_any t = equal t Any.
Proof. unfold is_any, equal. cbn [underlying]. destruct (underlying t); reflexivity. Qed.
Lemma is_void_equal t : is_void t = equal t Void.
Proof. unfold is_void, equal. cbn [underlying]. destruct (underlying t); reflexivity. Qed.

(* ---- the two positions agree ------------------------------------------------------------------- *)
Theorem init_assign_agree t v : is_generic t = false -> init_ok t v = assign_ok t v.
Proof. intros H. unfold init_ok, assign_ok. rewrite H, (equal_sym v t). reflexivity. Qed.

(* the only difference: a declaration whose type is an unresolved type parameter accepts anything *)
Theorem init_generic_accepts_all n v : init_ok (TParam n) v = true.
Proof. reflexivity. Qed.

(* ---- exactly: equivalent, numeric for numeric, anything but nothing for Variable ----------------- *)
Theorem assign_char t v :
  assign_ok t v = true <->
  equal t v = true \/ (is_numeric t = true /\ is_numeric v = true) \/ (equal t Any = true /\ equal v Void = false).
Proof.
  unfold assign_ok.
  destruct (equal t v), (equal t Any), (equal v Void), (is_numeric t), (is_numeric v); cbn; split; intros H;
    try reflexivity; try discriminate H; intuition congruence.
Qed.

Theorem init_char t v :
  is_generic t = false ->
  (init_ok t v = true <->
   equal t v = true \/ (is_numeric t = true /\ is_numeric v = true) \/ (equal t Any = true /\ equal v Void = false)).
Proof. intros H. rewrite (init_assign_agree t v H). apply assign_char. Qed.

(* numeric-ness respects equivalence, so "any numeric type" includes aliases of numeric types and
   excludes definitions over them *)
Lemma is_numeric_equal a b : equal a b = true -> is_numeric a = is_numeric b.
Proof.
  unfold equal, is_numeric. intros H.
  assert (forall c, ty_eqb (underlying a) c = ty_eqb (underlying b) c) as E.
  { intros c. destruct (ty_eqb (underlying a) c) eqn:A, (ty_eqb (underlying b) c) eqn:B; try reflexivity.
    - rewrite <- B. symmetry. apply (ty_eqb_trans _ (underlying a)); [rewrite ty_eqb_sym; exact H| exact A].
    - rewrite <- A. apply (ty_eqb_trans _ (underlying b)); [exact H| exact B]. }
  rewrite !E. reflexivity.
Qed.

(* a definition is accepted only for itself (or by a Variable): no implicit conversion from or to
   its base, whatever the base is *)
Theorem def_no_implicit_conversion i u :
  wf_types [Def i u] = true -> is_any u = false ->
  assign_ok (Def i u) u = false /\ assign_ok u (Def i u) = false /\
  init_ok (Def i u) u = false /\ init_ok u (Def i u) = is_generic u.
Proof.
  intros Hwf Hany.
  assert (E1 : equal (Def i u) u = false) by (apply def_opaque; exact Hwf).
  assert (E2 : equal u (Def i u) = false) by (rewrite equal_sym; exact E1).
  assert (E3 : equal u Any = false) by (rewrite <- is_any_equal; exact Hany).
  unfold assign_ok, init_ok. rewrite E1, E2, E3.
  change (is_numeric (Def i u)) with false. change (equal (Def i u) Any) with false.
  change (is_generic (Def i u)) with false. cbn. rewrite !andb_false_r. cbn.
  repeat split; try reflexivity. destruct (is_generic u); reflexivity.
Qed.

(* ---- conversions of definitions ------------------------------------------------------------------ *)
Lemma is_type_def_cast t : is_type_def t = match cast_type_def t with Some _ => true | None => false end.
Proof. unfold is_type_def, cast_type_def. destruct (underlying t); reflexivity. Qed.

Theorem cast_def_rule lhs target :
  is_any lhs = false -> is_any target = false ->
  is_type_def lhs || is_type_def target = true ->
  (cast_ok lhs target = true <->
   (exists b, cast_type_def lhs = Some b /\ equal b target = true) \/
   (exists b, cast_type_def target = Some b /\ equal b lhs = true)).
Proof.
  intros Hl Ht Hd. unfold cast_ok. rewrite Hl, Ht. cbn [orb andb].
  rewrite !is_type_def_cast in Hd.
  destruct (cast_type_def target) as [tu|] eqn:CT, (cast_type_def lhs) as [lu|] eqn:CL; cbn in Hd; try discriminate Hd.
  - rewrite orb_true_iff. split.
    + intros [H|H]; [left; exists lu| right; exists tu]; split; auto.
    + intros [[b [Hb H]]|[b [Hb H]]]; inversion Hb; subst; [left|right]; exact H.
  - split.
    + intros H. right. exists tu. split; [reflexivity| rewrite equal_sym; exact H].
    + intros [[b [Hb _]]|[b [Hb H]]]; [discriminate Hb|]. inversion Hb; subst. rewrite equal_sym; exact H.
  - split.
    + intros H. left. exists lu. split; [reflexivity| rewrite equal_sym; exact H].
    + intros [[b [Hb H]]|[b [Hb _]]]; [|discriminate Hb]. inversion Hb; subst. rewrite equal_sym; exact H.
Qed.

(* to and from its own base: always *)
Theorem cast_def_base_ok i u : cast_ok (Def i u) u = true /\ cast_ok u (Def i u) = true.
Proof.
  unfold cast_ok. change (is_any (Def i u)) with false. change (is_void (Def i u)) with false.
  change (cast_type_def (Def i u)) with (Some u). cbn [orb andb negb]. rewrite andb_true_r, orb_false_r.
  destruct (is_any u); [split; reflexivity|].
  destruct (cast_type_def u); rewrite ?equal_refl, ?orb_true_r; split; reflexivity.
Qed.

(* to or from anything that is neither a definition nor Variable: exactly its base *)
Theorem cast_def_to_plain i u t :
  is_type_def t = false -> is_any t = false ->
  cast_ok (Def i u) t = equal t u /\ cast_ok t (Def i u) = equal t u.
Proof.
  intros Hd Ha. rewrite is_type_def_cast in Hd. unfold cast_ok. rewrite Ha.
  change (is_any (Def i u)) with false. change (cast_type_def (Def i u)) with (Some u). cbn [orb andb].
  destruct (cast_type_def t); [discriminate Hd|]. split; reflexivity.
Qed.

Lemma wf_types_incl ts ts' : incl ts' ts -> wf_types ts = true -> wf_types ts' = true.
Proof.
  intros Hi H. apply wf_types_spec. apply wf_types_spec in H. eapply consistent_incl; [|exact H].
  intros x Hx. apply in_flat_map in Hx. destruct Hx as [t [Ht Hx]]. apply in_flat_map. exists t. split; [apply Hi; exact Ht| exact Hx].
Qed.

(* never between two definitions of the same base *)
Theorem cast_def_distinct i j u :
  wf_types [Def i u; Def j u] = true -> i <> j ->
  cast_ok (Def i u) (Def j u) = false.
Proof.
  intros Hwf Hij. unfold cast_ok.
  change (is_any (Def i u)) with false. change (is_any (Def j u)) with false.
  change (cast_type_def (Def i u)) with (Some u). change (cast_type_def (Def j u)) with (Some u). cbn [orb andb].
  rewrite (equal_sym u (Def j u)), (equal_sym u (Def i u)).
  rewrite (def_opaque j u), (def_opaque i u); [reflexivity| |];
    (eapply wf_types_incl; [|exact Hwf]); intros x [Hx|[]]; subst; cbn; auto.
Qed.

(* ---- the reference-context conversion (`x als T` as assignment target / Referenz argument) ------- *)
Lemma nodes_true_underlying t : incl (nodes (true_underlying t)) (nodes t).
Proof.
  induction t as [p| | |e IH|i u IH|i u IH|i|n|i u IH]; cbn [true_underlying nodes]; try apply incl_refl;
    try (apply incl_tl; exact IH). apply nodes_underlying.
Qed.

Lemma tlu_true_underlying t : true_list_underlying (true_underlying t) = true_list_underlying t.
Proof. induction t; cbn [true_list_underlying true_underlying]; try reflexivity; try assumption. rewrite tlu_underlying; reflexivity. Qed.

Lemma cast_assignable_valid a b :
  cast_assignable_ok a b = true -> equal (true_underlying a) (true_underlying b) = true.
Proof. unfold cast_assignable_ok. destruct (equal (true_underlying a) (true_underlying b)); [reflexivity|]. cbn. intros H; exact H. Qed.

(* it only ever relates types with the same representation (DeepEqual) *)
Theorem cast_assignable_representation a b :
  wf_types [a; b] = true -> cast_assignable_ok a b = true -> deep_equal a b = true.
Proof.
  intros Hwf H. apply cast_assignable_valid in H. unfold equal in H. rewrite !true_underlying_fixed in H.
  apply wf_types_spec in Hwf. cbn [flat_map] in Hwf. rewrite app_nil_r in Hwf.
  apply ty_eqb_eq_consistent in H.
  - unfold deep_equal. rewrite <- (tlu_true_underlying a), <- (tlu_true_underlying b), H. apply ty_eqb_refl.
  - intros x y Hx Hy. apply Hwf; apply in_or_app; [left|right]; apply nodes_true_underlying; assumption.
Qed.

Lemma nodes_sub x t : In x (nodes t) -> incl (nodes x) (nodes t).
Proof.
  induction t as [p| | |e IH|i u IH|i u IH|i|n|i u IH]; cbn [nodes]; intros H; try contradiction.
  - apply IH; exact H.
  - destruct H as [H|H]; [subst; apply incl_refl| apply incl_tl, IH; exact H].
  - destruct H as [H|H]; [subst; apply incl_refl| apply incl_tl, IH; exact H].
  - destruct H as [H|H]; [subst; apply incl_refl| apply incl_tl, IH; exact H].
Qed.

Lemma wf_pair_incl a b a' b' :
  incl (nodes a') (nodes a) -> incl (nodes b') (nodes b) -> wf_types [a; b] = true -> wf_types [a'; b'] = true.
Proof.
  intros Ha Hb H. apply wf_types_spec. apply wf_types_spec in H. cbn [flat_map] in *. rewrite app_nil_r in *.
  eapply consistent_incl; [|exact H]. intros x Hx. apply in_app_or in Hx. apply in_or_app.
  destruct Hx as [Hx|Hx]; [left; apply Ha| right; apply Hb]; exact Hx.
Qed.

Lemma equal_true_underlying a b : wf_types [a; b] = true -> equal a b = true -> true_underlying a = true_underlying b.
Proof.
  intros Hwf H. apply (equal_same_underlying a b Hwf) in H.
  rewrite (true_underlying_step a), (true_underlying_step b), H. reflexivity.
Qed.

Lemma cast_type_def_base t b : cast_type_def t = Some b -> true_underlying t = true_underlying b /\ incl (nodes b) (nodes t).
Proof.
  unfold cast_type_def. destruct (underlying t) as [p| | |e|j v|j v|j|n|j v] eqn:U; intros H; try discriminate H.
  inversion H; subst v; clear H. split.
  - rewrite (true_underlying_step t), U. reflexivity.
  - apply underlying_def_in in U. apply nodes_sub in U. intros x Hx. apply U. right. exact Hx.
Qed.

(* The reference cast obeys the same definition rule as the value cast: when a definition is involved
   it is accepted exactly for equivalent types (no conversion) and between a definition and its own base. *)
Theorem cast_assignable_def_rule lhs target :
  wf_types [lhs; target] = true ->
  is_type_def lhs || is_type_def target = true ->
  (cast_assignable_ok lhs target = true <->
   equal lhs target = true \/
   (exists b, cast_type_def lhs = Some b /\ equal b target = true) \/
   (exists b, cast_type_def target = Some b /\ equal b lhs = true)).
Proof.
  intros Hwf Hd. rewrite !is_type_def_cast in Hd. split.
  - intros H. pose proof (cast_assignable_valid _ _ H) as Hv. unfold cast_assignable_ok in H. rewrite Hv in H.
    destruct (equal lhs target) eqn:E; [left; reflexivity| right].
    destruct (cast_type_def target) as [tu|] eqn:CT, (cast_type_def lhs) as [lu|] eqn:CL; cbn in Hd, H; try discriminate Hd.
    + apply orb_true_iff in H. destruct H as [H|H]; [right; exists tu| left; exists lu]; (split; [reflexivity| rewrite equal_sym; exact H]).
    + rewrite orb_false_r in H. right. exists tu. split; [reflexivity| rewrite equal_sym; exact H].
    + left. exists lu. split; [reflexivity| rewrite equal_sym; exact H].
  - intros H.
    assert (Hv : equal (true_underlying lhs) (true_underlying target) = true).
    { destruct H as [H|[[b [Hb H]]|[b [Hb H]]]].
      - rewrite (equal_true_underlying _ _ Hwf H). apply equal_refl.
      - destruct (cast_type_def_base _ _ Hb) as [Ht Hn]. rewrite Ht.
        rewrite (equal_true_underlying b target); [apply equal_refl| |exact H].
        eapply wf_pair_incl; [exact Hn| apply incl_refl| exact Hwf].
      - destruct (cast_type_def_base _ _ Hb) as [Ht Hn]. rewrite Ht.
        rewrite <- (equal_true_underlying b lhs); [apply equal_refl| |exact H].
        eapply wf_pair_incl; [exact Hn| apply incl_refl|].
        eapply wf_types_incl; [|exact Hwf]. intros x [Hx|[Hx|[]]]; subst; cbn; auto. }
    unfold cast_assignable_ok. rewrite Hv.
    destruct (equal lhs target) eqn:E; [rewrite andb_false_r; reflexivity|].
    destruct H as [H|[[b [Hb H]]|[b [Hb H]]]]; [discriminate H| |].
    + rewrite Hb. destruct (cast_type_def target); cbn; rewrite (equal_sym target b), H; rewrite ?orb_true_r; reflexivity.
    + rewrite Hb. cbn. rewrite (equal_sym lhs b), H. reflexivity.
Qed.

(* ... hence it agrees with the value cast wherever a definition is converted (Variable aside) *)
Theorem cast_assignable_matches_cast lhs target :
  wf_types [lhs; target] = true ->
  is_any lhs = false -> is_any target = false ->
  is_type_def lhs || is_type_def target = true ->
  cast_assignable_ok lhs target = equal lhs target || cast_ok lhs target.
Proof.
  intros Hwf Hl Ht Hd.
  pose proof (cast_assignable_def_rule lhs target Hwf Hd) as R1.
  pose proof (cast_def_rule lhs target Hl Ht Hd) as R2.
  destruct (cast_assignable_ok lhs target) eqn:A, (equal lhs target) eqn:E, (cast_ok lhs target) eqn:C; cbn; try reflexivity; exfalso.
  - destruct (proj1 R1 eq_refl) as [H|H]; [discriminate H|]. apply R2 in H. discriminate H.
  - assert (false = true) by (apply R1; left; reflexivity). discriminate.
  - assert (false = true) by (apply R1; left; reflexivity). discriminate.
  - assert (false = true) by (apply R1; right; apply R2; reflexivity). discriminate.
Qed.

Theorem cast_assignable_base_ok i u : cast_assignable_ok (Def i u) u = true /\ cast_assignable_ok u (Def i u) = true.
Proof.
  unfold cast_assignable_ok. cbn [true_underlying]. change (cast_type_def (Def i u)) with (Some u).
  rewrite !equal_refl. split.
  - match goal with |- (if ?c then _ else _) = _ => destruct c end; [|reflexivity]. apply orb_true_r.
  - match goal with |- (if ?c then _ else _) = _ => destruct c end; reflexivity.
Qed.

(* never between two definitions of the same base (the defect repaired by /repo 727bc7d) *)
Theorem cast_assignable_def_distinct i j u :
  wf_types [Def i u; Def j u] = true -> i <> j -> cast_assignable_ok (Def i u) (Def j u) = false.
Proof.
  intros Hwf Hij.
  destruct (cast_assignable_ok (Def i u) (Def j u)) eqn:A; [exfalso|reflexivity].
  apply (cast_assignable_def_rule _ _ Hwf eq_refl) in A.
  assert (Wi : wf_types [Def i u] = true) by (eapply wf_types_incl; [|exact Hwf]; intros x [Hx|[]]; subst; cbn; auto).
  assert (Wj : wf_types [Def j u] = true) by (eapply wf_types_incl; [|exact Hwf]; intros x [Hx|[]]; subst; cbn; auto).
  destruct A as [H|[[b [Hb H]]|[b [Hb H]]]].
  - rewrite def_equal_iff_same_id in H. apply N.eqb_eq in H. contradiction.
  - inversion Hb; subst b. rewrite equal_sym, (def_opaque j u Wj) in H. discriminate H.
  - inversion Hb; subst b. rewrite equal_sym, (def_opaque i u Wi) in H. discriminate H.
Qed.

(* ---- further positions: arguments and returned values ------------------------------------------------ *)
(* a value parameter accepts exactly the equivalent types: no numeric conversion, no Variable rule *)
Theorem arg_char param arg assignable text_index : arg_ok false assignable text_index param arg = equal param arg.
Proof. unfold arg_ok. cbn. apply equal_sym. Qed.

(* a Referenz parameter needs an assignable argument of an EQUAL type *)
Theorem ref_arg_needs_equal param arg assignable text_index :
  arg_ok true assignable text_index param arg = true -> assignable = true /\ equal param arg = true.
Proof.
  unfold arg_ok. cbn [andb negb]. intros H. apply andb_true_iff in H. destruct H as [H E].
  apply andb_true_iff in H. destruct H as [H _]. rewrite equal_sym. split; [|exact E].
  destruct assignable; [reflexivity| discriminate H].
Qed.

Theorem ref_arg_char param arg assignable text_index :
  arg_ok true assignable text_index param arg =
  assignable && negb (equal param (Prim PBuchstabe) && text_index) && equal param arg.
Proof. unfold arg_ok. rewrite (equal_sym arg param). destruct assignable; reflexivity. Qed.

(* neither kind of parameter converts numeric types or accepts arbitrary values for Variable *)
Example arg_no_numeric_conversion :
  arg_ok false true false (Prim PZahl) (Prim PKommazahl) = false /\ arg_ok false true false Any (Prim PZahl) = false /\
  assign_ok (Prim PZahl) (Prim PKommazahl) = true /\ assign_ok Any (Prim PZahl) = true.
Proof. vm_compute. repeat split; reflexivity. Qed.

(* a returned value: equivalent to the return type, or anything (but nothing) for Variable; no numeric rule *)
Theorem return_char ret v :
  return_ok true ret v = true <-> equal v Void = false /\ (equal ret v = true \/ equal ret Any = true).
Proof.
  unfold return_ok. rewrite is_void_equal.
  destruct (equal v Void), (equal ret v), (equal ret Any); cbn; split; intros H; try discriminate H; try reflexivity; intuition congruence.
Qed.

(* a return without a value: exactly in functions returning nothing *)
Theorem return_bare_char ret : return_ok false ret Void = equal ret Void.
Proof. unfold return_ok. cbn [andb orb]. change (equal Void Void) with true. rewrite orb_true_r. destruct (equal ret Void); reflexivity. Qed.

(* relation to the property's two positions: what a return accepts an assignment accepts too; the converse
   fails exactly for the numeric-for-numeric conversion *)
Theorem return_implies_assign ret v : return_ok true ret v = true -> assign_ok ret v = true.
Proof.
  intros H. apply return_char in H. destruct H as [Hv [H|H]]; apply assign_char; [left; exact H| right; right; split; assumption].
Qed.
Example return_no_numeric_conversion :
  return_ok true (Prim PZahl) (Prim PKommazahl) = false /\ assign_ok (Prim PZahl) (Prim PKommazahl) = true /\ return_ok true Any (Prim PZahl) = true.
Proof. vm_compute. repeat split; reflexivity. Qed.

(* ---- non-vacuity of the hypotheses used above --------------------------------------------------- *)
Definition ex_zahl := Prim PZahl.
Definition ex_haus := Def 1 ex_zahl.                       (* Wir definieren eine Hausnummer als eine Zahl. *)
Definition ex_zeiger := Def 2 ex_zahl.                     (* Wir definieren einen Zeiger als eine Zahl. *)
Definition ex_nummer := Alias 3 ex_zahl.                   (* Wir nennen eine Zahl auch eine Nummer. *)
Definition ex_db := Def 4 (Alias 5 ex_zeiger).             (* definition over an alias of a definition *)

Example ex_wf : wf_types [ex_haus; ex_zeiger; ex_nummer; ex_db; List (Alias 6 (List ex_haus))] = true.
Proof. vm_compute. reflexivity. Qed.
Example ex_def_opaque_hyp : wf_types [ex_db] = true /\ equal ex_db (Alias 5 ex_zeiger) = false.
Proof. vm_compute. split; reflexivity. Qed.
Example ex_same_object_hyp : wf_types [ex_haus; ex_zeiger] = true /\ equal ex_haus ex_zeiger = false.
Proof. vm_compute. split; reflexivity. Qed.
Example ex_agree_hyp : is_generic ex_nummer = false /\ init_ok ex_nummer (Prim PByte) = true /\ init_ok ex_nummer (Prim PText) = false.
Proof. vm_compute. repeat split; reflexivity. Qed.
Example ex_no_implicit_hyp : wf_types [ex_haus] = true /\ is_any ex_zahl = false.
Proof. vm_compute. split; reflexivity. Qed.
Example ex_cast_rule_hyp :
  is_any ex_db = false /\ is_any ex_zeiger = false /\ is_type_def ex_db || is_type_def ex_zeiger = true /\
  cast_ok ex_db ex_zeiger = true /\ cast_ok ex_db ex_zahl = false /\ cast_ok ex_haus ex_zeiger = false.
Proof. vm_compute. repeat split; reflexivity. Qed.
Example ex_cast_plain_hyp : is_type_def (List ex_nummer) = false /\ is_any (List ex_nummer) = false.
Proof. vm_compute. split; reflexivity. Qed.
Example ex_cast_distinct_hyp : wf_types [Def 1 ex_zahl; Def 2 ex_zahl] = true /\ 1 <> 2.
Proof. split; [vm_compute; reflexivity| discriminate]. Qed.
Example ex_cast_assignable_hyp :
  wf_types [ex_db; ex_zeiger] = true /\ is_type_def ex_db || is_type_def ex_zeiger = true /\
  cast_assignable_ok ex_db ex_zeiger = true /\ cast_assignable_ok ex_db ex_haus = false /\ cast_assignable_ok ex_haus ex_zeiger = false.
Proof. vm_compute. repeat split; reflexivity. Qed.
