(* Type-level half of generic instantiation (src/ddptypes/generic_types.go): UnifyGenericType,
   GetInstantiatedType and the instantiation cache of generic Kombinationen
   (GetInstantiatedStructType).  Definitions only; proofs are in GenericProofs.v.

   Modelled state: every GenericStructType owns a slice `Instantiations`; the model keeps ONE list of
   entries (generic struct id, type arguments, instantiated struct id) in creation order — the slice
   of generic struct g is the sub-list of entries with that g.  An instantiated *StructType is
   `Struct s` with a fresh id s; its `genericType` / `instantiatedWith` fields are found through the
   entry that created it (`sinfo`).
   NOT modelled: the Fields of an instantiated Kombination (GetInstantiatedStructType computes them with
   GetInstantiatedType, which may create further instantiations as a side effect; the observable of
   the model is which requests return the same object, not the order of ids), and Go's nil Type: a
   result that contains nil (unbound type parameter) is `None`. *)
From Coq Require Import List NArith Bool.
Import ListNotations.
From DDP Require Import Types.Ty.
Open Scope N_scope.

Definition inst_entry := (N * list ty * N)%type.
Record gstate := { insts : list inst_entry; next_id : N }.
Definition gstate0 (first_id : N) : gstate := {| insts := []; next_id := first_id |}.

(* slices.EqualFunc(a, b, Equal) *)
Fixpoint args_equal (a b : list ty) : bool :=
  match a, b with
  | [], [] => true
  | x :: a', y :: b' => equal x y && args_equal a' b'
  | _, _ => false
  end.

Definition entry_matches (g : N) (args : list ty) (e : inst_entry) : bool :=
  (fst (fst e) =? g) && args_equal (snd (fst e)) args.

Definition find_inst (l : list inst_entry) (g : N) (args : list ty) : option N :=
  match find (entry_matches g args) l with Some e => Some (snd e) | None => None end.

(* GetInstantiatedStructType(s, genericTypes); arity g = len(s.GenericTypes) *)
Definition get_inst (arity : N -> nat) (st : gstate) (g : N) (args : list ty) : option N * gstate :=
  match find_inst (insts st) g args with
  | Some s => (Some s, st)
  | None =>
    if negb (Nat.eqb (length args) (arity g)) then (None, st)
    else (Some (next_id st), {| insts := insts st ++ [(g, args, next_id st)]; next_id := N.succ (next_id st) |})
  end.

(* genericType / instantiatedWith of a *StructType *)
Definition sinfo (st : gstate) (s : N) : option (N * list ty) :=
  match find (fun e : inst_entry => snd e =? s) (insts st) with Some e => Some (fst e) | None => None end.

Definition cast_generic (t : ty) : option N := match underlying t with TParam n => Some n | _ => None end.
Definition cast_struct (t : ty) : option N := match underlying t with Struct s => Some s | _ => None end.

(* the map[string]Type of bound type parameters; first binding wins *)
Definition subst_env := list (N * ty).
Fixpoint lookup (σ : subst_env) (n : N) : option ty :=
  match σ with
  | [] => None
  | (m, t) :: r => if m =? n then Some t else lookup r n
  end.

(* unifyType closure *)
Definition unify_type (σ : subst_env) (n : N) (inst : ty) : ty * subst_env :=
  match lookup σ n with
  | Some t => (t, σ)
  | None => (inst, σ ++ [(n, inst)])
  end.

Fixpoint wrap (d : nat) (t : ty) : ty := match d with O => t | S d' => List (wrap d' t) end.

(* the list-peeling loop of UnifyGenericType; fuel = size of the parameter type (never exhausted:
   GenericProofs.peel_total).  Result: instantiatedType, genericType, listDepth, isArgList, isParamList *)
Fixpoint peel (fuel : nat) (inst gen : ty) (depth : nat) : option (ty * ty * nat * bool * bool) :=
  match cast_list inst, cast_list gen with
  | Some ae, Some pe =>
    match fuel with
    | O => None
    | S f => if is_generic pe then Some (ae, pe, S depth, true, true) else peel f ae pe (S depth)
    end
  | ia, ip => Some (inst, gen, depth, match ia with Some _ => true | None => false end, match ip with Some _ => true | None => false end)
  end.

Inductive tres := TNil | TPanic | TOk (l : list ty).

(* the loop over paramStructType.instantiatedWith; argStructType.instantiatedWith[i] would panic if the
   argument had fewer type arguments — excluded since /repo 36809d8 (same generic Kombination, hence same
   arity: GenericProofs.unify_total) *)
Fixpoint unify_targs (pargs aargs : list ty) (σ : subst_env) : tres * subst_env :=
  match pargs with
  | [] => (TOk [], σ)
  | pp :: ps =>
    match aargs with
    | [] => (TPanic, σ)
    | aa :: as' =>
      let '(pp', σ1) := match cast_generic pp with Some n => unify_type σ n aa | None => (pp, σ) end in
      if negb (equal pp' aa) then (TNil, σ1)
      else match unify_targs ps as' σ1 with
           | (TOk l, σ2) => (TOk (aa :: l), σ2)
           | r => r
           end
    end
  end.

Inductive ures := UNil | UPanic | UFuel | UOk (t : ty).

(* UnifyGenericType(argType, paramType, genericTypes) *)
Definition unify (arity : N -> nat) (st : gstate) (arg param : ty) (σ : subst_env) : ures * subst_env * gstate :=
  match peel (size param) arg param 0 with
  | None => (UFuel, σ, st)
  | Some (inst, gen, depth, is_arg_list, is_param_list) =>
    if is_param_list && negb is_arg_list then (UNil, σ, st)
    else
      let '(gen1, σ1) := match cast_generic gen with Some n => unify_type σ n inst | None => (gen, σ) end in
      let pinfo := match cast_struct gen1 with Some ps => sinfo st ps | None => None end in
      let ainfo := match cast_struct inst with Some s => sinfo st s | None => None end in
      match pinfo with
      | None => (UOk (wrap depth gen1), σ1, st)
      | Some (g, pargs) =>
        match ainfo with
        | None => (UNil, σ1, st)
        | Some (g', aargs) =>
          (* argStructType.genericType != paramStructType.genericType: not an instantiation of the same
             generic Kombination (a plain Kombination has genericType nil: the `None` case above) *)
          if negb (g' =? g) then (UNil, σ1, st) else
          match unify_targs pargs aargs σ1 with
          | (TPanic, σ2) => (UPanic, σ2, st)
          | (TNil, σ2) => (UNil, σ2, st)
          | (TOk targs, σ2) =>
            match get_inst arity st g targs with
            | (None, st') => (UNil, σ2, st')
            | (Some s, st') => (UOk (wrap depth (Struct s)), σ2, st')
            end
          end
        end
      end
  end.

(* what the call sites do with the result (typechecker.go findOverload*, alias matching):
   Equal(UnifyGenericType(arg, param, σ), arg), threading σ through the parameters in order *)
Fixpoint check_args (arity : N -> nat) (st : gstate) (args params : list ty) (σ : subst_env) : bool * subst_env * gstate :=
  match args, params with
  | [], [] => (true, σ, st)
  | a :: args', p :: params' =>
    match unify arity st a p σ with
    | (UOk r, σ1, st1) => if equal r a then check_args arity st1 args' params' σ1 else (false, σ1, st1)
    | (_, σ1, st1) => (false, σ1, st1)
    end
  | _, _ => (false, σ, st)
  end.

(* the list loop of GetInstantiatedType *)
Fixpoint ipeel (fuel : nat) (t : ty) (depth : nat) : option (ty * nat) :=
  match cast_list t with
  | Some e =>
    match fuel with
    | O => None
    | S f => if is_generic e then Some (e, S depth) else ipeel f e (S depth)
    end
  | None => Some (t, depth)
  end.

Fixpoint inst_targs (targs : list ty) (σ : subst_env) : option (list ty) :=
  match targs with
  | [] => Some []
  | t :: r =>
    match (match cast_generic t with Some n => lookup σ n | None => Some t end), inst_targs r σ with
    | Some x, Some l => Some (x :: l)
    | _, _ => None
    end
  end.

(* GetInstantiatedType(t, genericTypes) *)
Definition instantiate_type (arity : N -> nat) (st : gstate) (t : ty) (σ : subst_env) : option ty * gstate :=
  match ipeel (size t) t 0 with
  | None => (None, st)
  | Some (it, depth) =>
    match (match cast_generic it with Some n => lookup σ n | None => Some it end) with
    | None => (None, st)
    | Some it1 =>
      match (match cast_struct it1 with Some s => sinfo st s | None => None end) with
      | None => (Some (wrap depth it1), st)
      | Some (g, sargs) =>
        match inst_targs sargs σ with
        | None => (None, st)
        | Some targs =>
          match get_inst arity st g targs with
          | (None, st') => (None, st')
          | (Some s, st') => (Some (wrap depth (Struct s)), st')
          end
        end
      end
    end
  end.

(* ---- specification side ------------------------------------------------------------------------- *)

(* textual replacement of type parameters in a parameter type built from list-of, type parameters and
   closed types *)
Fixpoint subst (σ : subst_env) (t : ty) : ty :=
  match t with
  | TParam n => match lookup σ n with Some x => x | None => t end
  | List e => List (subst σ e)
  | _ => t
  end.

(* parameter types of the shape  (T Liste)…Liste  or  (closed type) Liste…Liste *)
Fixpoint simple_param (t : ty) : bool :=
  match t with
  | TParam _ => true
  | List e => simple_param e
  | Alias _ _ | Inst _ _ => false
  | Struct _ => false             (* Kombinationen are covered by the instantiation-cache theorems *)
  | _ => true
  end.

(* a history of instantiation requests against the cache *)
Fixpoint run_insts (arity : N -> nat) (st : gstate) (reqs : list (N * list ty)) : list (option N) :=
  match reqs with
  | [] => []
  | (g, args) :: r => let '(o, st') := get_inst arity st g args in o :: run_insts arity st' r
  end.
