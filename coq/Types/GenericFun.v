(* The per-module cache of generic FUNCTION instantiations (parser.InstantiateGenericFunction,
   src/parser/alias.go ~400-510; GenericFuncInfo.Instantiations : map[*Module][]*FuncDecl).

     genericModule := p.genericModule (the module an enclosing instantiation is made for) or p.module;
     if the function is extern: genericModule = the declaring module
     for each instantiation in Instantiations[genericModule]:
         if slices.EqualFunc(instantiation.Parameters, parameters, ParamTypesEqual) return it
     extern:      Instantiations[genericModule] = append(Instantiations[p.module], &decl); return
     otherwise:   Instantiations[genericModule] = append(Instantiations[genericModule], &decl)   ("to prevent recursion")
                  parse the body (may request further instantiations, also of this very function)
                  on errors: delete &decl from Instantiations[genericModule]

   Model: one list of entries (function, module key, parameter types, instantiation id) in creation order; the
   slice of (f, m) is the sub-list with that function and key.  Events: a request, and the failure of the body
   of an instantiation created earlier (so nested requests between creation and failure are ordinary events).
   An extern generic is only ever stored under its declaring module D, hence Instantiations[p.module] is empty
   unless p.module = D: the extern `append` above RESETS the slice of D to the new instantiation alone when the
   request comes from another module (modelled literally; FunProofs: fun_inst_extern_refuted).
   Definitions only; proofs below the line in GenericFunProofs.v. *)
From Coq Require Import List NArith Bool.
Import ListNotations.
From DDP Require Import Types.Ty.
Open Scope N_scope.

Definition pty := (ty * bool)%type.                      (* ParameterType{Type, IsReference} *)

(* ParamTypesEqual *)
Definition pty_equal (a b : pty) : bool := Bool.eqb (snd a) (snd b) && equal (fst a) (fst b).

Fixpoint params_equal (a b : list pty) : bool :=
  match a, b with
  | [], [] => true
  | x :: a', y :: b' => pty_equal x y && params_equal a' b'
  | _, _ => false
  end.

Record fentry := { fe_fun : N; fe_mod : N; fe_params : list pty; fe_id : N }.
Record fstate := { fins : list fentry; fnext : N }.
Definition fstate0 : fstate := {| fins := []; fnext := 0 |}.

Inductive fevent :=
| EReq (f : N) (gmod : option N) (pmod : N) (params : list pty)    (* p.genericModule, p.module, instantiated parameter types *)
| EFail (id : N).                                                  (* the body of instantiation id had errors *)

Inductive fresult := Hit (id : N) | New (id : N) | Done.

Section Env.
  Variable is_extern : N -> bool.      (* ast.IsExternFunc(genericFunc) *)
  Variable decl_mod : N -> N.          (* genericFunc.Module() *)

  Definition key_mod (f : N) (gmod : option N) (pmod : N) : N :=
    if is_extern f then decl_mod f else match gmod with Some m => m | None => pmod end.

  Definition fmatches (f m : N) (params : list pty) (e : fentry) : bool :=
    (fe_fun e =? f) && (fe_mod e =? m) && params_equal (fe_params e) params.

  Definition in_slot (f m : N) (e : fentry) : bool := (fe_fun e =? f) && (fe_mod e =? m).

  Definition fstep (st : fstate) (ev : fevent) : fresult * fstate :=
    match ev with
    | EReq f gmod pmod params =>
      let m := key_mod f gmod pmod in
      match find (fmatches f m params) (fins st) with
      | Some e => (Hit (fe_id e), st)
      | None =>
        let e := {| fe_fun := f; fe_mod := m; fe_params := params; fe_id := fnext st |} in
        let kept := if is_extern f && negb (pmod =? m)
                    then filter (fun x => negb (in_slot f m x)) (fins st)     (* append(Instantiations[p.module] = nil, …) *)
                    else fins st in
        (New (fnext st), {| fins := kept ++ [e]; fnext := N.succ (fnext st) |})
      end
    | EFail id => (Done, {| fins := filter (fun x => negb (fe_id x =? id)) (fins st); fnext := fnext st |})
    end.

  Fixpoint frun (st : fstate) (evs : list fevent) : fstate :=
    match evs with
    | [] => st
    | ev :: r => frun (snd (fstep st ev)) r
    end.

  Definition result_id (r : fresult) : option N :=
    match r with Hit i | New i => Some i | Done => None end.
End Env.
