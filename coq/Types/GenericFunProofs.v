(* Canonicity of the per-module cache of generic function instantiations (model: GenericFun.v). *)
From Coq Require Import List NArith Bool Lia.
Import ListNotations.
From DDP Require Import Types.Ty Types.TyProofs Types.GenericFun.
Open Scope N_scope.

Lemma pty_equal_refl a : pty_equal a a = true.
Proof. unfold pty_equal. rewrite Bool.eqb_reflx, equal_refl. reflexivity. Qed.
Lemma pty_equal_sym a b : pty_equal a b = pty_equal b a.
Proof. unfold pty_equal. rewrite (equal_sym (fst a)). destruct (snd a), (snd b); reflexivity. Qed.
Lemma pty_equal_trans a b c : pty_equal a b = true -> pty_equal b c = true -> pty_equal a c = true.
Proof.
  unfold pty_equal. intros H1 H2. apply andb_true_iff in H1. apply andb_true_iff in H2. destruct H1 as [R1 E1], H2 as [R2 E2].
  apply Bool.eqb_prop in R1. apply Bool.eqb_prop in R2. rewrite R1, R2, Bool.eqb_reflx, (equal_trans _ _ _ E1 E2). reflexivity.
Qed.

Lemma params_equal_refl a : params_equal a a = true.
Proof. induction a as [|x a IH]; cbn; [reflexivity|]. rewrite pty_equal_refl, IH. reflexivity. Qed.
Lemma params_equal_sym a b : params_equal a b = params_equal b a.
Proof. revert b; induction a as [|x a IH]; intros [|y b]; cbn; try reflexivity. rewrite pty_equal_sym, IH. reflexivity. Qed.
Lemma params_equal_trans a b c : params_equal a b = true -> params_equal b c = true -> params_equal a c = true.
Proof.
  revert b c; induction a as [|x a IH]; intros [|y b] [|z c]; cbn; intros H1 H2; try discriminate H1; try discriminate H2; try reflexivity.
  apply andb_true_iff in H1. apply andb_true_iff in H2. destruct H1 as [H1 H1'], H2 as [H2 H2'].
  rewrite (pty_equal_trans _ _ _ H1 H2), (IH _ _ H1' H2'). reflexivity.
Qed.

Section Env.
  Variable is_extern : N -> bool.
  Variable decl_mod : N -> N.
  Notation fstep := (fstep is_extern decl_mod).
  Notation frun := (frun is_extern decl_mod).
  Notation key_mod := (key_mod is_extern decl_mod).

  (* entries created by an event *)
  Definition created (st : fstate) (ev : fevent) : list fentry :=
    match ev with
    | EReq f gmod pmod params =>
      let m := key_mod f gmod pmod in
      match find (fmatches f m params) (fins st) with
      | Some _ => []
      | None => [{| fe_fun := f; fe_mod := m; fe_params := params; fe_id := fnext st |}]
      end
    | EFail _ => []
    end.

  Fixpoint glog (st : fstate) (evs : list fevent) : list fentry :=
    match evs with
    | [] => []
    | ev :: r => created st ev ++ glog (snd (fstep st ev)) r
    end.

  (* st: the cache; L: every entry ever created *)
  Record inv (st : fstate) (L : list fentry) : Prop := {
    inv_sub : forall e, In e (fins st) -> In e L;
    inv_fresh : forall e, In e L -> fe_id e < fnext st;
    inv_ids : forall e1 e2, In e1 L -> In e2 L -> fe_id e1 = fe_id e2 -> e1 = e2;
    inv_key : forall e1 e2, In e1 (fins st) -> In e2 (fins st) -> fe_fun e1 = fe_fun e2 -> fe_mod e1 = fe_mod e2 ->
                            params_equal (fe_params e1) (fe_params e2) = true -> e1 = e2
  }.

  Lemma inv0 : inv fstate0 [].
  Proof. split; cbn; intros; contradiction. Qed.

  Lemma find_none_nomatch l f m ps e :
    find (fmatches f m ps) l = None -> In e l -> fe_fun e = f -> fe_mod e = m -> params_equal (fe_params e) ps = false.
  Proof.
    intros F Hi Hf Hm. pose proof (find_none _ _ F e Hi) as Hn. unfold fmatches in Hn. rewrite Hf, Hm, !N.eqb_refl in Hn. exact Hn.
  Qed.

  Lemma step_inv st L ev : inv st L -> inv (snd (fstep st ev)) (L ++ created st ev).
  Proof.
    intros [Hs Hf Hi Hk]. destruct ev as [f gmod pmod ps|id]; cbn [fstep created].
    - set (m := key_mod f gmod pmod). destruct (find (fmatches f m ps) (fins st)) as [e|] eqn:F; cbn [snd].
      + rewrite app_nil_r. split; assumption.
      + set (ne := {| fe_fun := f; fe_mod := m; fe_params := ps; fe_id := fnext st |}).
        set (kept := if is_extern f && negb (pmod =? m) then filter (fun x => negb (in_slot f m x)) (fins st) else fins st).
        assert (Hkept : forall e, In e kept -> In e (fins st)).
        { intros e He. unfold kept in He. destruct (is_extern f && negb (pmod =? m)); [apply filter_In in He; apply He| exact He]. }
        split; cbn [fins fnext].
        * intros e He. apply in_app_or in He. apply in_or_app. destruct He as [He|[He|[]]]; [left; apply Hs, Hkept, He| right; left; exact He].
        * intros e He. apply in_app_or in He. destruct He as [He|[He|[]]]; [apply Hf in He; lia| subst e; cbn; lia].
        * intros e1 e2 H1 H2 Heq. apply in_app_or in H1. apply in_app_or in H2.
          destruct H1 as [H1|[H1|[]]], H2 as [H2|[H2|[]]].
          -- apply Hi; assumption.
          -- subst e2. apply Hf in H1. cbn in Heq. lia.
          -- subst e1. apply Hf in H2. cbn in Heq. lia.
          -- congruence.
        * intros e1 e2 H1 H2 Hfn Hmd Hp. apply in_app_or in H1. apply in_app_or in H2.
          destruct H1 as [H1|[H1|[]]], H2 as [H2|[H2|[]]].
          -- apply Hk; try assumption; apply Hkept; assumption.
          -- subst e2. cbn in Hfn, Hmd, Hp. rewrite (find_none_nomatch _ _ _ _ e1 F (Hkept _ H1) Hfn Hmd) in Hp. discriminate Hp.
          -- subst e1. cbn in Hfn, Hmd, Hp. rewrite params_equal_sym in Hp.
             rewrite (find_none_nomatch _ _ _ _ e2 F (Hkept _ H2) (eq_sym Hfn) (eq_sym Hmd)) in Hp. discriminate Hp.
          -- congruence.
    - rewrite app_nil_r. split; cbn [fins fnext snd].
      + intros e He. apply filter_In in He. apply Hs, He.
      + exact Hf.
      + exact Hi.
      + intros e1 e2 H1 H2. apply filter_In in H1. apply filter_In in H2. apply Hk; [apply H1| apply H2].
  Qed.

  Lemma run_inv evs : forall st L, inv st L -> inv (frun st evs) (L ++ glog st evs).
  Proof.
    induction evs as [|ev r IH]; intros st L H; cbn [frun glog].
    - rewrite app_nil_r. exact H.
    - rewrite app_assoc. apply IH. apply step_inv. exact H.
  Qed.

  (* the instantiation a request returns is recorded under the request's function and key module with
     pointwise-equal parameter types *)
  Lemma req_entry st f gmod pmod ps r st' i :
    fstep st (EReq f gmod pmod ps) = (r, st') -> result_id r = Some i ->
    exists e, In e (fins st') /\ fe_id e = i /\ fe_fun e = f /\ fe_mod e = key_mod f gmod pmod /\ params_equal (fe_params e) ps = true.
  Proof.
    cbn [fstep]. set (m := key_mod f gmod pmod). destruct (find (fmatches f m ps) (fins st)) as [e|] eqn:F; intros H Hr; inversion H; subst; clear H; cbn in Hr; inversion Hr; subst.
    - apply find_some in F. destruct F as [Hi Hm]. unfold fmatches in Hm. apply andb_true_iff in Hm. destruct Hm as [Hm Hp].
      apply andb_true_iff in Hm. destruct Hm as [Hf Hm]. apply N.eqb_eq in Hf. apply N.eqb_eq in Hm. exists e. repeat split; assumption.
    - eexists. split; [cbn [fins]; apply in_or_app; right; left; reflexivity|]. cbn. repeat split; try reflexivity. apply params_equal_refl.
  Qed.

  (* SOUNDNESS, every function (extern or not), every history from the empty cache: the same instantiation is
     only ever returned for the same function, the same key module and pointwise-equal parameter types *)
  Theorem fun_inst_sound evs1 f1 g1 p1 ps1 r1 s1 evs2 f2 g2 p2 ps2 r2 s2 i :
    fstep (frun fstate0 evs1) (EReq f1 g1 p1 ps1) = (r1, s1) -> result_id r1 = Some i ->
    fstep (frun s1 evs2) (EReq f2 g2 p2 ps2) = (r2, s2) -> result_id r2 = Some i ->
    f1 = f2 /\ key_mod f1 g1 p1 = key_mod f2 g2 p2 /\ params_equal ps1 ps2 = true.
  Proof.
    intros S1 R1 S2 R2.
    pose proof (run_inv evs1 _ _ inv0) as IA. cbn [app] in IA.
    pose proof (step_inv _ _ (EReq f1 g1 p1 ps1) IA) as I1. rewrite S1 in I1. cbn [snd] in I1.
    pose proof (run_inv evs2 _ _ I1) as IB.
    pose proof (step_inv _ _ (EReq f2 g2 p2 ps2) IB) as I2. rewrite S2 in I2. cbn [snd] in I2.
    destruct (req_entry _ _ _ _ _ _ _ _ S1 R1) as [e1 [In1 [Id1 [F1 [M1 P1]]]]].
    destruct (req_entry _ _ _ _ _ _ _ _ S2 R2) as [e2 [In2 [Id2 [F2 [M2 P2]]]]].
    assert (e1 = e2).
    { apply (inv_ids _ _ I2); [| apply (inv_sub _ _ I2); exact In2| congruence].
      apply in_or_app; left. apply in_or_app; left. apply (inv_sub _ _ I1). exact In1. }
    subst e2. repeat split; try congruence.
    eapply params_equal_trans; [rewrite params_equal_sym; exact P1| exact P2].
  Qed.

  Fixpoint no_fail (id : N) (evs : list fevent) : bool :=
    match evs with
    | [] => true
    | EFail j :: r => negb (j =? id) && no_fail id r
    | _ :: r => no_fail id r
    end.

  (* an instantiation of a non-extern function stays in the cache until its own body fails *)
  Lemma persists e evs : forall st, is_extern (fe_fun e) = false -> no_fail (fe_id e) evs = true -> In e (fins st) -> In e (fins (frun st evs)).
  Proof.
    induction evs as [|ev r IH]; intros st Hx Hn Hi; cbn [frun]; [exact Hi|].
    apply IH; [exact Hx| destruct ev; cbn in Hn; [exact Hn| apply andb_true_iff in Hn; apply Hn]|].
    destruct ev as [f gmod pmod ps|j]; cbn [fstep].
    - destruct (find (fmatches f (key_mod f gmod pmod) ps) (fins st)); cbn [snd fins]; [exact Hi|].
      apply in_or_app; left. destruct (is_extern f) eqn:Xf; cbn [andb]; [|exact Hi].
      destruct (negb (pmod =? key_mod f gmod pmod)); [|exact Hi].
      apply filter_In. split; [exact Hi|]. unfold in_slot.
      destruct (fe_fun e =? f) eqn:E; [apply N.eqb_eq in E; congruence| reflexivity].
    - cbn [snd fins]. apply filter_In. split; [exact Hi|]. cbn in Hn. apply andb_true_iff in Hn. destruct Hn as [Hn _].
      rewrite N.eqb_sym. exact Hn.
  Qed.

  (* COMPLETENESS, non-extern functions: as long as the body of an instantiation has not failed, every later
     request for the same function from the same key module with pointwise-equal parameter types returns it *)
  Theorem fun_inst_complete evs1 f g1 p1 ps1 r1 s1 i evs2 g2 p2 ps2 :
    is_extern f = false ->
    fstep (frun fstate0 evs1) (EReq f g1 p1 ps1) = (r1, s1) -> result_id r1 = Some i ->
    no_fail i evs2 = true ->
    key_mod f g1 p1 = key_mod f g2 p2 -> params_equal ps1 ps2 = true ->
    fstep (frun s1 evs2) (EReq f g2 p2 ps2) = (Hit i, frun s1 evs2).
  Proof.
    intros Hx S1 R1 Hn Hk Hp.
    pose proof (run_inv evs1 _ _ inv0) as IA. cbn [app] in IA.
    pose proof (step_inv _ _ (EReq f g1 p1 ps1) IA) as I1. rewrite S1 in I1. cbn [snd] in I1.
    pose proof (run_inv evs2 _ _ I1) as IB.
    destruct (req_entry _ _ _ _ _ _ _ _ S1 R1) as [e1 [In1 [Id1 [F1 [M1 P1]]]]].
    assert (InB : In e1 (fins (frun s1 evs2))) by (apply persists; [rewrite F1; exact Hx| rewrite Id1; exact Hn| exact In1]).
    cbn [fstep]. rewrite <- Hk.
    destruct (find (fmatches f (key_mod f g1 p1) ps2) (fins (frun s1 evs2))) as [e|] eqn:F.
    - apply find_some in F. destruct F as [Hi Hm]. unfold fmatches in Hm. apply andb_true_iff in Hm. destruct Hm as [Hm Hp2].
      apply andb_true_iff in Hm. destruct Hm as [Hf Hm]. apply N.eqb_eq in Hf. apply N.eqb_eq in Hm.
      assert (e = e1).
      { apply (inv_key _ _ IB); try assumption; try congruence.
        eapply params_equal_trans; [exact Hp2|]. rewrite params_equal_sym. eapply params_equal_trans; [exact P1| exact Hp]. }
      subst e. rewrite Id1. reflexivity.
    - pose proof (find_none_nomatch _ _ _ _ e1 F InB F1 M1) as Hno.
      assert (params_equal (fe_params e1) ps2 = true) by (eapply params_equal_trans; [exact P1| exact Hp]). congruence.
  Qed.

  (* both directions together *)
  Theorem fun_inst_canonical evs1 f1 g1 p1 ps1 r1 s1 i1 evs2 f2 g2 p2 ps2 r2 s2 i2 :
    is_extern f1 = false ->
    fstep (frun fstate0 evs1) (EReq f1 g1 p1 ps1) = (r1, s1) -> result_id r1 = Some i1 ->
    no_fail i1 evs2 = true ->
    fstep (frun s1 evs2) (EReq f2 g2 p2 ps2) = (r2, s2) -> result_id r2 = Some i2 ->
    (i1 = i2 <-> f1 = f2 /\ key_mod f1 g1 p1 = key_mod f2 g2 p2 /\ params_equal ps1 ps2 = true).
  Proof.
    intros Hx S1 R1 Hn S2 R2. split.
    - intros E. subst i2. eapply fun_inst_sound; eassumption.
    - intros [Ef [Ek Ep]]. subst f2.
      rewrite (fun_inst_complete evs1 f1 g1 p1 ps1 r1 s1 i1 evs2 g2 p2 ps2 Hx S1 R1 Hn Ek Ep) in S2.
      inversion S2; subst. cbn in R2. congruence.
  Qed.

  (* a failed instantiation leaves no entry *)
  Theorem failed_leaves_no_entry st id e : In e (fins (snd (fstep st (EFail id)))) -> fe_id e <> id.
  Proof.
    cbn [fstep snd fins]. intros H. apply filter_In in H. destruct H as [_ H]. intros E. rewrite E, N.eqb_refl in H. discriminate H.
  Qed.
End Env.

(* extern generic functions: requests from a module other than the declaring one RESET the slice of the
   declaring module, so an earlier instantiation is forgotten and made again *)
Theorem fun_inst_extern_refuted :
  exists is_extern decl_mod f pmod a b,
    is_extern f = true /\ pmod <> decl_mod f /\
    let ev x := EReq f None pmod [(x, false)] in
    let s1 := snd (fstep is_extern decl_mod fstate0 (ev a)) in
    let s2 := snd (fstep is_extern decl_mod s1 (ev b)) in
    fst (fstep is_extern decl_mod fstate0 (ev a)) = New 0 /\ fst (fstep is_extern decl_mod s2 (ev a)) = New 2.
Proof.
  exists (fun _ => true), (fun _ => 1), 7, 2, (Prim PZahl), (Prim PText). split; [reflexivity|]. split; [discriminate|]. vm_compute. split; reflexivity.
Qed.

(* ... but not when the requests come from the declaring module itself *)
Example fun_inst_extern_same_module :
  let ev x := EReq 7 None 1 [(x, false)] in
  let st s e := snd (fstep (fun _ => true) (fun _ => 1) s e) in
  fst (fstep (fun _ => true) (fun _ => 1) (st (st fstate0 (ev (Prim PZahl))) (ev (Prim PText))) (ev (Prim PZahl))) = Hit 0.
Proof. vm_compute. reflexivity. Qed.

Print Assumptions fun_inst_canonical.
Print Assumptions fun_inst_sound.
