(* Proofs about the type-level half of generic instantiation (model: Generic.v):
     peel_total / ipeel_total    the fuel of the list-peeling loops is never exhausted
     inst_canonical              the instantiation cache is canonical over every history of requests
     unify_sound                 a successful unification returns the parameter type with its type
                                 parameters replaced (first binding wins) — list/type-parameter fragment
     check_args_sound            an accepted call: every argument is equivalent to its substituted parameter
     unify_conflict              one type parameter, two different argument types => the call is rejected *)
From Coq Require Import List NArith Bool Lia.
Import ListNotations.
From DDP Require Import Types.Ty Types.TyProofs Types.Generic.
Open Scope N_scope.

(* ---- fuel ------------------------------------------------------------------------------------------ *)
Lemma size_underlying_le t : (size (underlying t) <= size t)%nat.
Proof. induction t; cbn [underlying size]; lia. Qed.

Lemma underlying_list_size t e : underlying t = List e -> (size e < size t)%nat.
Proof.
  induction t as [p| | |e0 IH|i u IH|i u IH|i|n|i u IH]; cbn [underlying size]; intros H; try discriminate H.
  - inversion H; subst. pose proof (size_underlying_le e0). lia.
  - apply IH in H. lia.
  - apply IH in H. lia.
Qed.

Lemma cast_list_size t e : cast_list t = Some e -> (size e < size t)%nat.
Proof. unfold cast_list. destruct (underlying t) eqn:U; intros H; try discriminate H. inversion H; subst. eapply underlying_list_size; eassumption. Qed.

Lemma peel_total_gen fuel : forall inst gen d, (size gen <= fuel)%nat -> peel fuel inst gen d <> None.
Proof.
  induction fuel as [|f IH]; intros inst gen d Hs.
  - destruct gen; cbn in Hs; lia.
  - cbn [peel]. destruct (cast_list inst) as [ae|] eqn:CI; [|discriminate].
    destruct (cast_list gen) as [pe|] eqn:CG; [|discriminate].
    destruct (is_generic pe); [discriminate|]. apply IH. apply cast_list_size in CG. lia.
Qed.

Theorem peel_total inst gen d : peel (size gen) inst gen d <> None.
Proof. apply peel_total_gen. lia. Qed.

Lemma ipeel_total_gen fuel : forall t d, (size t <= fuel)%nat -> ipeel fuel t d <> None.
Proof.
  induction fuel as [|f IH]; intros t d Hs.
  - destruct t; cbn in Hs; lia.
  - cbn [ipeel]. destruct (cast_list t) as [e|] eqn:C; [|discriminate].
    destruct (is_generic e); [discriminate|]. apply IH. apply cast_list_size in C. lia.
Qed.

Theorem ipeel_total t d : ipeel (size t) t d <> None.
Proof. apply ipeel_total_gen. lia. Qed.

Theorem unify_never_out_of_fuel arity st arg param σ : fst (fst (unify arity st arg param σ)) <> UFuel.
Proof.
  unfold unify. pose proof (peel_total arg param 0%nat) as HP.
  destruct (peel (size param) arg param 0) as [[[[[inst gen] depth] ia] ip]|]; [|congruence].
  destruct (ip && negb ia); [cbn; discriminate|].
  destruct (match cast_generic gen with Some n => unify_type σ n inst | None => (gen, σ) end) as [gen1 σ1].
  destruct (match cast_struct gen1 with Some ps => sinfo st ps | None => None end) as [[g pargs]|]; [|cbn; discriminate].
  destruct (match cast_struct inst with Some s => sinfo st s | None => None end) as [[g' aargs]|]; [|cbn; discriminate].
  destruct (negb (g' =? g)); [cbn; discriminate|].
  destruct (unify_targs pargs aargs σ1) as [[| |targs] σ2]; try (cbn; discriminate).
  destruct (get_inst arity st g targs) as [[s|] st']; cbn; discriminate.
Qed.

(* ---- unification never panics (since /repo 36809d8) --------------------------------------------------- *)
(* every recorded instantiation has as many type arguments as its generic Kombination has parameters *)
Definition inv_len (arity : N -> nat) (st : gstate) : Prop :=
  forall e, In e (insts st) -> length (snd (fst e)) = arity (fst (fst e)).

Lemma inv_len_gstate0 arity k : inv_len arity (gstate0 k).
Proof. intros e H; cbn in H; contradiction. Qed.

Lemma get_inst_inv_len arity st g args o st' :
  inv_len arity st -> get_inst arity st g args = (o, st') -> inv_len arity st'.
Proof.
  intros Hl. unfold get_inst. destruct (find_inst (insts st) g args); [intros H; inversion H; subst; exact Hl|].
  destruct (Nat.eqb (length args) (arity g)) eqn:E; cbn [negb]; intros H; inversion H; subst; clear H; [|exact Hl].
  intros e He. cbn [insts] in He. apply in_app_or in He. destruct He as [He|[He|[]]]; [apply Hl; exact He|].
  subst e. cbn. apply PeanoNat.Nat.eqb_eq. exact E.
Qed.

Lemma sinfo_in st s g a : sinfo st s = Some (g, a) -> exists e, In e (insts st) /\ fst (fst e) = g /\ snd (fst e) = a.
Proof.
  unfold sinfo. destruct (find (fun e : inst_entry => snd e =? s) (insts st)) as [e|] eqn:F; intros H; [|discriminate H].
  apply find_some in F. destruct F as [Hi _]. inversion H as [H1]. exists e. rewrite H1. cbn. auto.
Qed.

Lemma unify_targs_no_panic pargs : forall aargs σ, (length pargs <= length aargs)%nat -> fst (unify_targs pargs aargs σ) <> TPanic.
Proof.
  induction pargs as [|pp ps IH]; intros aargs σ Hl; cbn [unify_targs]; [cbn; discriminate|].
  destruct aargs as [|aa as']; [cbn in Hl; lia|].
  destruct (match cast_generic pp with Some n => unify_type σ n aa | None => (pp, σ) end) as [pp' σ1].
  destruct (negb (equal pp' aa)); [cbn; discriminate|].
  specialize (IH as' σ1). destruct (unify_targs ps as' σ1) as [[| |l] σ2]; cbn in *; try discriminate.
  apply IH. lia.
Qed.

Theorem unify_total arity st arg param σ :
  inv_len arity st ->
  fst (fst (unify arity st arg param σ)) <> UPanic /\ fst (fst (unify arity st arg param σ)) <> UFuel /\
  inv_len arity (snd (unify arity st arg param σ)).
Proof.
  intros Hl. split; [|split; [apply unify_never_out_of_fuel|]]; unfold unify;
  destruct (peel (size param) arg param 0) as [[[[[inst gen] depth] ia] ip]|]; try (cbn; first [discriminate| exact Hl]);
  (destruct (ip && negb ia); [cbn; first [discriminate| exact Hl]|]);
  destruct (match cast_generic gen with Some n => unify_type σ n inst | None => (gen, σ) end) as [gen1 σ1];
  (destruct (match cast_struct gen1 with Some ps => sinfo st ps | None => None end) as [[g pargs]|] eqn:PI; [|cbn; first [discriminate| exact Hl]]);
  (destruct (match cast_struct inst with Some s => sinfo st s | None => None end) as [[g' aargs]|] eqn:AI; [|cbn; first [discriminate| exact Hl]]);
  (destruct (g' =? g) eqn:G; cbn [negb]; [|cbn; first [discriminate| exact Hl]]).
  - apply N.eqb_eq in G. subst g'.
    assert (Hlen : length pargs = length aargs).
    { destruct (cast_struct gen1) as [ps|]; [|discriminate PI]. destruct (cast_struct inst) as [s|]; [|discriminate AI].
      apply sinfo_in in PI. apply sinfo_in in AI. destruct PI as [e1 [I1 [G1 A1]]], AI as [e2 [I2 [G2 A2]]].
      rewrite <- A1, <- A2, (Hl e1 I1), (Hl e2 I2), G1, G2. reflexivity. }
    pose proof (unify_targs_no_panic pargs aargs σ1) as NP.
    destruct (unify_targs pargs aargs σ1) as [[| |targs] σ2]; cbn in NP; try (cbn; discriminate).
    + exfalso. apply NP; [lia| reflexivity].
    + destruct (get_inst arity st g targs) as [[s|] st']; cbn; discriminate.
  - destruct (unify_targs pargs aargs σ1) as [[| |targs] σ2]; try (cbn; exact Hl).
    destruct (get_inst arity st g targs) as [[s|] st'] eqn:GI; cbn; eapply get_inst_inv_len; eassumption.
Qed.

(* ---- the instantiation cache is canonical ------------------------------------------------------------ *)
Lemma args_equal_refl a : args_equal a a = true.
Proof. induction a as [|x a IH]; cbn; [reflexivity|]. rewrite equal_refl, IH. reflexivity. Qed.
Lemma args_equal_sym a b : args_equal a b = args_equal b a.
Proof. revert b; induction a as [|x a IH]; intros [|y b]; cbn; try reflexivity. rewrite equal_sym, IH. reflexivity. Qed.
Lemma args_equal_trans a b c : args_equal a b = true -> args_equal b c = true -> args_equal a c = true.
Proof.
  revert b c; induction a as [|x a IH]; intros [|y b] [|z c]; cbn; intros H1 H2; try discriminate H1; try discriminate H2; try reflexivity.
  apply andb_true_iff in H1. apply andb_true_iff in H2. destruct H1 as [H1 H1'], H2 as [H2 H2'].
  rewrite (equal_trans _ _ _ H1 H2), (IH _ _ H1' H2'). reflexivity.
Qed.
Lemma args_equal_length a b : args_equal a b = true -> length a = length b.
Proof. revert b; induction a as [|x a IH]; intros [|y b]; cbn; intros H; try discriminate H; try reflexivity. apply andb_true_iff in H. f_equal. apply IH. apply H. Qed.

Definition e_g (e : inst_entry) := fst (fst e).
Definition e_args (e : inst_entry) := snd (fst e).
Definition e_id (e : inst_entry) := snd e.

Record inv (st : gstate) : Prop := {
  inv_fresh : forall e, In e (insts st) -> e_id e < next_id st;
  inv_ids : forall e1 e2, In e1 (insts st) -> In e2 (insts st) -> e_id e1 = e_id e2 -> e1 = e2;
  inv_args : forall e1 e2, In e1 (insts st) -> In e2 (insts st) -> e_g e1 = e_g e2 -> args_equal (e_args e1) (e_args e2) = true -> e1 = e2
}.

Lemma inv_gstate0 k : inv (gstate0 k).
Proof. split; cbn; intros; contradiction. Qed.

Definition extends (st st' : gstate) : Prop := exists l, insts st' = insts st ++ l.
Lemma extends_refl st : extends st st.
Proof. exists []. rewrite app_nil_r. reflexivity. Qed.
Lemma extends_trans a b c : extends a b -> extends b c -> extends a c.
Proof. intros [l1 H1] [l2 H2]. exists (l1 ++ l2). rewrite H2, H1, app_assoc. reflexivity. Qed.
Lemma extends_in a b e : extends a b -> In e (insts a) -> In e (insts b).
Proof. intros [l H] Hi. rewrite H. apply in_or_app. left. exact Hi. Qed.

Lemma find_inst_some l g args s :
  find_inst l g args = Some s -> exists e, In e l /\ e_id e = s /\ e_g e = g /\ args_equal (e_args e) args = true.
Proof.
  unfold find_inst. destruct (find (entry_matches g args) l) as [e|] eqn:F; intros H; [|discriminate H].
  inversion H; subst. apply find_some in F. destruct F as [Hi Hm]. unfold entry_matches in Hm.
  apply andb_true_iff in Hm. destruct Hm as [Hg Ha]. apply N.eqb_eq in Hg. exists e. repeat split; assumption.
Qed.

Lemma find_inst_none l g args e :
  find_inst l g args = None -> In e l -> e_g e = g -> args_equal (e_args e) args = false.
Proof.
  unfold find_inst. destruct (find (entry_matches g args) l) as [e'|] eqn:F; intros H Hi Hg; [discriminate H|].
  pose proof (find_none _ _ F e Hi) as Hn. unfold entry_matches in Hn. unfold e_g in Hg. rewrite Hg, N.eqb_refl in Hn. exact Hn.
Qed.

Lemma get_inst_inv arity st g args o st' :
  inv st -> get_inst arity st g args = (o, st') -> inv st' /\ extends st st'.
Proof.
  intros Hinv. unfold get_inst. destruct (find_inst (insts st) g args) as [s|] eqn:F.
  - intros H; inversion H; subst. split; [exact Hinv| apply extends_refl].
  - destruct (negb (Nat.eqb (length args) (arity g))).
    + intros H; inversion H; subst. split; [exact Hinv| apply extends_refl].
    + intros H; inversion H; subst; clear H. split; [|exists [(g, args, next_id st)]; reflexivity].
      destruct Hinv as [Hf Hi Ha]. split; cbn [insts next_id].
      * intros e He. apply in_app_or in He. destruct He as [He|[He|[]]].
        -- apply Hf in He. lia.
        -- subst e. unfold e_id; cbn. lia.
      * intros e1 e2 H1 H2 Heq. apply in_app_or in H1. apply in_app_or in H2.
        destruct H1 as [H1|[H1|[]]], H2 as [H2|[H2|[]]].
        -- apply Hi; assumption.
        -- subst e2. apply Hf in H1. unfold e_id in *; cbn in Heq. lia.
        -- subst e1. apply Hf in H2. unfold e_id in *; cbn in Heq. lia.
        -- congruence.
      * intros e1 e2 H1 H2 Hg Heq. apply in_app_or in H1. apply in_app_or in H2.
        destruct H1 as [H1|[H1|[]]], H2 as [H2|[H2|[]]].
        -- apply Ha; assumption.
        -- subst e2. change (e_g (g, args, next_id st)) with g in Hg. change (e_args (g, args, next_id st)) with args in Heq.
           rewrite (find_inst_none _ _ _ e1 F H1 Hg) in Heq. discriminate Heq.
        -- subst e1. change (e_g (g, args, next_id st)) with g in Hg. change (e_args (g, args, next_id st)) with args in Heq.
           rewrite args_equal_sym in Heq.
           rewrite (find_inst_none _ _ _ e2 F H2 (eq_sym Hg)) in Heq. discriminate Heq.
        -- congruence.
Qed.

(* the object a request returns is recorded with equivalent type arguments *)
Lemma get_inst_entry arity st g args s st' :
  get_inst arity st g args = (Some s, st') ->
  exists e, In e (insts st') /\ e_id e = s /\ e_g e = g /\ args_equal (e_args e) args = true.
Proof.
  unfold get_inst. destruct (find_inst (insts st) g args) as [s0|] eqn:F.
  - intros H; inversion H; subst. apply find_inst_some in F. exact F.
  - destruct (negb (Nat.eqb (length args) (arity g))); intros H; inversion H; subst; clear H.
    exists (g, args, next_id st). cbn [insts]. repeat split; [apply in_or_app; right; left; reflexivity| apply args_equal_refl].
Qed.

(* an existing equivalent instantiation is returned, no new object is made *)
Lemma get_inst_hit arity st g args e :
  inv st -> In e (insts st) -> e_g e = g -> args_equal (e_args e) args = true ->
  get_inst arity st g args = (Some (e_id e), st).
Proof.
  intros Hinv Hi Hg Ha. unfold get_inst. destruct (find_inst (insts st) g args) as [s|] eqn:F.
  - apply find_inst_some in F. destruct F as [e' [Hi' [Hs [Hg' Ha']]]].
    assert (e' = e).
    { apply (inv_args st Hinv); try assumption; [congruence|].
      eapply args_equal_trans; [exact Ha'| rewrite args_equal_sym; exact Ha]. }
    subst e'. rewrite Hs. reflexivity.
  - rewrite (find_inst_none _ _ _ e F Hi Hg) in Ha. discriminate Ha.
Qed.

(* wrong number of type arguments: no object (and none is created) *)
Lemma get_inst_arity arity st g args :
  inv st -> (forall e, In e (insts st) -> length (e_args e) = arity (e_g e)) ->
  length args <> arity g -> get_inst arity st g args = (None, st).
Proof.
  intros Hinv Hlen Hne. unfold get_inst. destruct (find_inst (insts st) g args) as [s|] eqn:F.
  - apply find_inst_some in F. destruct F as [e [Hi [_ [Hg Ha]]]]. apply args_equal_length in Ha.
    specialize (Hlen e Hi). rewrite Hg in Hlen. congruence.
  - destruct (Nat.eqb (length args) (arity g)) eqn:E; [apply PeanoNat.Nat.eqb_eq in E; contradiction| reflexivity].
Qed.

Fixpoint state_after (arity : N -> nat) (st : gstate) (reqs : list (N * list ty)) : gstate :=
  match reqs with
  | [] => st
  | (g, args) :: r => state_after arity (snd (get_inst arity st g args)) r
  end.

Lemma state_after_inv arity reqs : forall st, inv st -> inv (state_after arity st reqs) /\ extends st (state_after arity st reqs).
Proof.
  induction reqs as [|[g args] r IH]; intros st Hinv; cbn [state_after].
  - split; [exact Hinv| apply extends_refl].
  - destruct (get_inst arity st g args) as [o st1] eqn:G. cbn [snd].
    destruct (get_inst_inv _ _ _ _ _ _ Hinv G) as [Hi1 He1]. destruct (IH st1 Hi1) as [Hi2 He2].
    split; [exact Hi2| eapply extends_trans; eassumption].
Qed.

(* Two requests anywhere in a history return the same Kombination object iff they name the same generic
   Kombination with pointwise equivalent type arguments. *)
Theorem inst_canonical arity st reqs1 g1 a1 s1 st1 reqs2 g2 a2 s2 st2 :
  inv st ->
  get_inst arity (state_after arity st reqs1) g1 a1 = (Some s1, st1) ->
  get_inst arity (state_after arity st1 reqs2) g2 a2 = (Some s2, st2) ->
  (s1 = s2 <-> g1 = g2 /\ args_equal a1 a2 = true).
Proof.
  intros Hinv G1 G2.
  destruct (state_after_inv arity reqs1 st Hinv) as [HiA _].
  destruct (get_inst_inv _ _ _ _ _ _ HiA G1) as [Hi1 _].
  destruct (state_after_inv arity reqs2 st1 Hi1) as [HiB HeB].
  destruct (get_inst_inv _ _ _ _ _ _ HiB G2) as [Hi2 He2].
  destruct (get_inst_entry _ _ _ _ _ _ G1) as [e1 [In1 [Id1 [Gg1 Ar1]]]].
  destruct (get_inst_entry _ _ _ _ _ _ G2) as [e2 [In2 [Id2 [Gg2 Ar2]]]].
  assert (In1B : In e1 (insts (state_after arity st1 reqs2))) by (eapply extends_in; eassumption).
  assert (In1' : In e1 (insts st2)) by (eapply extends_in; eassumption).
  split.
  - intros Hs. assert (e1 = e2) by (apply (inv_ids st2 Hi2); try assumption; congruence). subst e2.
    split; [congruence|].
    eapply args_equal_trans; [rewrite args_equal_sym; exact Ar1| exact Ar2].
  - intros [Hg Ha]. rewrite <- Hg in G2.
    assert (Hhit := get_inst_hit arity _ g1 a2 e1 HiB In1B Gg1 (args_equal_trans _ _ _ Ar1 Ha)).
    rewrite Hhit in G2. inversion G2; subst. reflexivity.
Qed.

(* ---- unification: list / type-parameter fragment ---------------------------------------------------- *)
Lemma lookup_app_some σ l n t : lookup σ n = Some t -> lookup (σ ++ l) n = Some t.
Proof. induction σ as [|[m x] r IH]; cbn; intros H; [discriminate H|]. destruct (m =? n); [exact H| apply IH; exact H]. Qed.
Lemma lookup_app_none σ n t : lookup σ n = None -> lookup (σ ++ [(n, t)]) n = Some t.
Proof. induction σ as [|[m x] r IH]; cbn; intros H; [rewrite N.eqb_refl; reflexivity|]. destruct (m =? n); [discriminate H| apply IH; exact H]. Qed.

Definition env_extends (σ σ' : subst_env) : Prop := forall n t, lookup σ n = Some t -> lookup σ' n = Some t.
Lemma env_extends_refl σ : env_extends σ σ.
Proof. intros n t H; exact H. Qed.
Lemma env_extends_trans a b c : env_extends a b -> env_extends b c -> env_extends a c.
Proof. intros H1 H2 n t H. apply H2, H1, H. Qed.

Lemma unify_type_spec σ n inst t σ' :
  unify_type σ n inst = (t, σ') -> lookup σ' n = Some t /\ env_extends σ σ'.
Proof.
  unfold unify_type. destruct (lookup σ n) as [x|] eqn:L; intros H; inversion H; subst; clear H.
  - split; [exact L| apply env_extends_refl].
  - split; [apply lookup_app_none; exact L| intros m x Hm; apply lookup_app_some; exact Hm].
Qed.

Lemma wrap_succ k t : wrap (S k) t = wrap k (List t).
Proof. induction k as [|k IH]; cbn [wrap]; [reflexivity|]. f_equal. exact IH. Qed.

Lemma subst_wrap σ k t : subst σ (wrap k t) = wrap k (subst σ t).
Proof. induction k as [|k IH]; cbn [wrap subst]; [reflexivity|]. f_equal. exact IH. Qed.

Lemma simple_underlying t : simple_param t = true -> underlying t = t.
Proof. induction t; cbn [simple_param underlying]; intros H; try reflexivity; try discriminate H. f_equal. apply IHt. exact H. Qed.

(* a "leaf" of a simple parameter type: a type parameter or a closed non-list type *)
Definition leaf (t : ty) : bool := simple_param t && negb (match t with List _ => true | _ => false end).

Lemma peel_simple fuel : forall arg param d inst gen depth ia ip,
  simple_param param = true ->
  peel fuel arg param d = Some (inst, gen, depth, ia, ip) ->
  ip && negb ia = false ->
  exists k, depth = (d + k)%nat /\ param = wrap k gen /\ leaf gen = true.
Proof.
  induction fuel as [|f IH]; intros arg param d inst gen depth ia ip Hs HP Hn.
  - cbn [peel] in HP. destruct (cast_list arg) as [ae|] eqn:CA, (cast_list param) as [pe|] eqn:CP; try discriminate HP;
      inversion HP; subst; clear HP; cbn in Hn; try discriminate Hn;
      exists 0%nat; (split; [lia|]); (split; [reflexivity|]); unfold leaf; rewrite Hs; cbn;
      unfold cast_list in CP; rewrite (simple_underlying _ Hs) in CP; destruct gen; try reflexivity; discriminate CP.
  - cbn [peel] in HP. destruct (cast_list arg) as [ae|] eqn:CA, (cast_list param) as [pe|] eqn:CP.
    + unfold cast_list in CP. rewrite (simple_underlying _ Hs) in CP. destruct param as [p| | |e|i u|i u|i|n|i u]; try discriminate CP.
      inversion CP; subst pe; clear CP. cbn [simple_param] in Hs.
      destruct (is_generic e) eqn:G.
      * inversion HP; subst; clear HP. exists 1%nat. split; [lia|]. split; [reflexivity|].
        unfold leaf. rewrite Hs. unfold is_generic in G. rewrite (simple_underlying _ Hs) in G. destruct gen; try discriminate G; reflexivity.
      * destruct (IH _ _ _ _ _ _ _ _ Hs HP Hn) as [k [Hd [Hp Hl]]]. exists (S k). split; [lia|]. split; [|exact Hl].
        cbn [wrap]. rewrite Hp. reflexivity.
    + inversion HP; subst; clear HP. exists 0%nat. split; [lia|]. split; [reflexivity|]. unfold leaf. rewrite Hs. cbn.
      unfold cast_list in CP. rewrite (simple_underlying _ Hs) in CP. destruct gen; try reflexivity; discriminate CP.
    + inversion HP; subst; clear HP. cbn in Hn. discriminate Hn.
    + inversion HP; subst; clear HP. exists 0%nat. split; [lia|]. split; [reflexivity|]. unfold leaf. rewrite Hs. cbn.
      unfold cast_list in CP. rewrite (simple_underlying _ Hs) in CP. destruct gen; try reflexivity; discriminate CP.
Qed.

Lemma sinfo_nil st s : insts st = [] -> sinfo st s = None.
Proof. intros H. unfold sinfo. rewrite H. reflexivity. Qed.

(* A successful unification returns exactly the parameter type with its type parameters replaced by
   their bindings, never changes an existing binding, and touches no cache (no generic Kombination
   exists in this fragment). *)
Theorem unify_sound arity st arg param σ r σ' st' :
  insts st = [] -> simple_param param = true ->
  unify arity st arg param σ = (UOk r, σ', st') ->
  r = subst σ' param /\ env_extends σ σ' /\ st' = st.
Proof.
  intros Hst Hs. unfold unify.
  destruct (peel (size param) arg param 0) as [[[[[inst gen] depth] ia] ip]|] eqn:HP; [|intros H; discriminate H].
  destruct (ip && negb ia) eqn:Hn; [intros H; discriminate H|].
  destruct (peel_simple _ _ _ _ _ _ _ _ _ Hs HP Hn) as [k [Hd [Hp Hl]]]. cbn in Hd. subst depth.
  unfold leaf in Hl. apply andb_true_iff in Hl. destruct Hl as [Hl1 Hl2].
  destruct gen as [p| | |e|i u|i u|i|n|i u]; cbn in Hl1, Hl2; try discriminate Hl1; try discriminate Hl2;
    cbn [cast_generic cast_struct underlying];
    try (rewrite ?sinfo_nil by exact Hst; intros H; inversion H; subst; clear H;
         split; [rewrite subst_wrap; reflexivity| split; [apply env_extends_refl| reflexivity]]).
  (* the type parameter *)
  destruct (unify_type σ n inst) as [t σ1] eqn:U. destruct (unify_type_spec _ _ _ _ _ U) as [HL HE].
  assert (Hp' : match (match cast_struct t with Some ps => sinfo st ps | None => None end) with Some x => False | None => True end).
  { destruct (cast_struct t); [rewrite sinfo_nil by exact Hst|]; exact I. }
  destruct (match cast_struct t with Some ps => sinfo st ps | None => None end); [contradiction|].
  intros H; inversion H; subst; clear H.
  split; [|split; [exact HE| reflexivity]].
  rewrite subst_wrap. cbn [subst]. rewrite HL. reflexivity.
Qed.

(* the type parameter of a simple parameter type, if any *)
Fixpoint tparam_of (t : ty) : option N :=
  match t with TParam n => Some n | List e => tparam_of e | _ => None end.

Lemma subst_stable σ σ' t :
  env_extends σ σ' -> (forall n, tparam_of t = Some n -> lookup σ n <> None) -> subst σ' t = subst σ t.
Proof.
  intros HE. induction t; cbn [subst tparam_of]; intros HB; try reflexivity.
  - f_equal. apply IHt. exact HB.
  - specialize (HB name eq_refl). destruct (lookup σ name) as [x|] eqn:L; [|congruence]. rewrite (HE _ _ L). reflexivity.
Qed.

Lemma unify_binds arity st arg param σ r σ' st' :
  insts st = [] -> simple_param param = true ->
  unify arity st arg param σ = (UOk r, σ', st') ->
  forall n, tparam_of param = Some n -> lookup σ' n <> None.
Proof.
  intros Hst Hs. unfold unify.
  destruct (peel (size param) arg param 0) as [[[[[inst gen] depth] ia] ip]|] eqn:HP; [|intros H; discriminate H].
  destruct (ip && negb ia) eqn:Hn; [intros H; discriminate H|].
  destruct (peel_simple _ _ _ _ _ _ _ _ _ Hs HP Hn) as [k [Hd [Hp Hl]]].
  assert (Ht : tparam_of param = tparam_of gen).
  { rewrite Hp. clear. induction k as [|k IH]; cbn [wrap tparam_of]; [reflexivity| exact IH]. }
  unfold leaf in Hl. apply andb_true_iff in Hl. destruct Hl as [_ Hl2].
  intros H n Hn'. rewrite Ht in Hn'. destruct gen; cbn [tparam_of] in Hn'; try discriminate Hn'; try discriminate Hl2.
  injection Hn' as Hx. subst name. cbn [cast_generic underlying] in H.
  destruct (unify_type σ n inst) as [t σ1] eqn:U. destruct (unify_type_spec _ _ _ _ _ U) as [HL HE].
  destruct (match cast_struct t with Some ps => sinfo st ps | None => None end) as [[g pargs]|] eqn:PI.
  - destruct (cast_struct t); [rewrite sinfo_nil in PI by exact Hst|]; discriminate PI.
  - inversion H; subst. congruence.
Qed.

(* An accepted call: every argument is equivalent to its parameter type after substituting the final
   bindings ("behaves like the specialisation obtained by replacing the type parameters"). *)
Theorem check_args_sound arity : forall args params st σ σ' st',
  insts st = [] -> forallb simple_param params = true ->
  check_args arity st args params σ = (true, σ', st') ->
  env_extends σ σ' /\ Forall2 (fun p a => equal (subst σ' p) a = true) params args.
Proof.
  induction args as [|a args IH]; intros [|p params] st σ σ' st' Hst Hs HC; cbn [check_args] in HC; try discriminate HC.
  - inversion HC; subst. split; [apply env_extends_refl| constructor].
  - cbn [forallb] in Hs. apply andb_true_iff in Hs. destruct Hs as [Hs1 Hs2].
    destruct (unify arity st a p σ) as [[[| | |r] σ1] st1] eqn:U; try discriminate HC.
    destruct (unify_sound _ _ _ _ _ _ _ _ Hst Hs1 U) as [Hr [HE1 Hst1]]. subst st1.
    pose proof (unify_binds _ _ _ _ _ _ _ _ Hst Hs1 U) as HB.
    destruct (equal r a) eqn:E; [|discriminate HC].
    destruct (IH _ _ _ _ _ Hst Hs2 HC) as [HE2 HF].
    split; [eapply env_extends_trans; eassumption|].
    constructor; [|exact HF].
    rewrite (subst_stable σ1 σ' p HE2 HB). rewrite <- Hr. exact E.
Qed.

(* One type parameter bound to two different argument types makes the call ill-typed: in an accepted
   call, any two parameters of the same type received equivalent arguments. *)
Theorem unify_conflict arity args params st σ σ' st' :
  insts st = [] -> forallb simple_param params = true ->
  check_args arity st args params σ = (true, σ', st') ->
  forall i j p a b, nth_error params i = Some p -> nth_error params j = Some p ->
                    nth_error args i = Some a -> nth_error args j = Some b -> equal a b = true.
Proof.
  intros Hst Hs HC i j p a b Pi Pj Ai Aj.
  destruct (check_args_sound _ _ _ _ _ _ _ Hst Hs HC) as [_ HF].
  assert (forall k q x, nth_error params k = Some q -> nth_error args k = Some x -> equal (subst σ' q) x = true) as HN.
  { clear -HF. induction HF as [|q x ps xs Hqx _ IH]; intros [|k] q' x' Hq Hx; cbn in Hq, Hx; try discriminate Hq.
    - inversion Hq; inversion Hx; subst. exact Hqx.
    - eapply IH; eassumption. }
  pose proof (HN _ _ _ Pi Ai) as E1. pose proof (HN _ _ _ Pj Aj) as E2.
  eapply equal_trans; [rewrite equal_sym; exact E1| exact E2].
Qed.

(* the typical shape: f(<T>, <T>) with a Zahl and a Text *)
Example unify_conflict_example :
  fst (fst (check_args (fun _ => 0%nat) (gstate0 100) [Prim PZahl; Prim PText] [TParam 1; TParam 1] [])) = false /\
  fst (fst (check_args (fun _ => 0%nat) (gstate0 100) [List (Prim PZahl); Alias 7 (Prim PZahl)] [List (TParam 1); TParam 1] [])) = true.
Proof. vm_compute. split; reflexivity. Qed.

(* the former index-out-of-range panic of UnifyGenericType (repaired by /repo 36809d8): the parameter is an
   instantiation of a generic Kombination with two type parameters, the argument one of a generic
   Kombination with one — now simply "does not unify" *)
Example unify_other_generic_is_nil :
  let ar := fun g : N => if g =? 1 then 2%nat else 1%nat in
  let st1 := snd (get_inst ar (gstate0 100) 1 [TParam 7; TParam 8]) in      (* T-R-Zwei   = Struct 100 *)
  let st2 := snd (get_inst ar st1 2 [Prim PZahl]) in                        (* Zahl-Eins  = Struct 101 *)
  fst (fst (unify ar st2 (Struct 101) (Struct 100) [])) = UNil.
Proof. vm_compute. reflexivity. Qed.

Print Assumptions inst_canonical.
Print Assumptions unify_sound.
Print Assumptions check_args_sound.
Print Assumptions unify_conflict.
Print Assumptions unify_total.
