(* Model of the type values and helper predicates of src/ddptypes (type.go, typedefs.go, list_type.go,
   struct_type.go, generic_types.go).  Definitions only; proofs are in TyProofs.v.

   A ddptypes.Type is an interface value.  The dynamic types are modelled by the constructors below;
   *TypeAlias, *TypeDef, *StructType and *InstantiatedGenericType are pointers, and Go's `==` on two
   interface values holding pointers is pointer identity: the model carries an object identity `id`
   instead and compares ids (`ty_eqb`).  ListType is a struct value compared field-wise (so
   recursively on the element type), PrimitiveType an int, VoidType / Variable empty structs,
   GenericType a struct holding the name.  Names and grammatical genders of named types are not part
   of any relation modelled here and are left out. *)
From Coq Require Import List NArith Bool.
Import ListNotations.
Open Scope N_scope.

Inductive prim := PZahl | PKommazahl | PByte | PWahrheitswert | PBuchstabe | PText.

Inductive ty :=
| Prim (p : prim)
| Void                          (* VoidType{} : "nichts" *)
| Any                           (* Variable{} *)
| List (e : ty)                 (* ListType{ElementType: e} *)
| Alias (id : N) (u : ty)       (* *TypeAlias{Underlying: u} *)
| Def (id : N) (u : ty)         (* *TypeDef{Underlying: u} *)
| Struct (id : N)               (* *StructType (a Kombination) *)
| TParam (name : N)             (* GenericType{Name} *)
| Inst (id : N) (a : ty).       (* *InstantiatedGenericType{Actual: a} *)

Definition prim_eqb (p q : prim) : bool :=
  match p, q with
  | PZahl, PZahl | PKommazahl, PKommazahl | PByte, PByte | PWahrheitswert, PWahrheitswert
  | PBuchstabe, PBuchstabe | PText, PText => true
  | _, _ => false
  end.

(* Go's `==` on two ddptypes.Type interface values *)
Fixpoint ty_eqb (a b : ty) : bool :=
  match a, b with
  | Prim p, Prim q => prim_eqb p q
  | Void, Void => true
  | Any, Any => true
  | List x, List y => ty_eqb x y
  | Alias i _, Alias j _ => i =? j
  | Def i _, Def j _ => i =? j
  | Struct i, Struct j => i =? j
  | TParam n, TParam m => n =? m
  | Inst i _, Inst j _ => i =? j
  | _, _ => false
  end.

(* full structural comparison (used only to state that ids identify objects) *)
Fixpoint ty_beq (a b : ty) : bool :=
  match a, b with
  | Prim p, Prim q => prim_eqb p q
  | Void, Void => true
  | Any, Any => true
  | List x, List y => ty_beq x y
  | Alias i x, Alias j y => (i =? j) && ty_beq x y
  | Def i x, Def j y => (i =? j) && ty_beq x y
  | Struct i, Struct j => i =? j
  | TParam n, TParam m => n =? m
  | Inst i x, Inst j y => (i =? j) && ty_beq x y
  | _, _ => false
  end.

(* ---- type.go ---- *)

(* GetUnderlying *)
Fixpoint underlying (t : ty) : ty :=
  match t with
  | Alias _ u => underlying u
  | List e => List (underlying e)
  | Inst _ a => underlying a
  | _ => t
  end.

(* Equal *)
Definition equal (t1 t2 : ty) : bool := ty_eqb (underlying t1) (underlying t2).

Definition is_primitive (t : ty) : bool := match underlying t with Prim _ => true | _ => false end.
Definition cast_primitive (t : ty) : option prim := match underlying t with Prim p => Some p | _ => None end.
Definition is_numeric (t : ty) : bool :=
  let u := underlying t in ty_eqb u (Prim PZahl) || ty_eqb u (Prim PKommazahl) || ty_eqb u (Prim PByte).
Definition is_list (t : ty) : bool := match underlying t with List _ => true | _ => false end.
Definition cast_list (t : ty) : option ty := match underlying t with List e => Some e | _ => None end.
Definition is_void (t : ty) : bool := match underlying t with Void => true | _ => false end.
Definition is_primitive_or_void (t : ty) : bool := is_primitive t || is_void t.
Definition is_struct (t : ty) : bool := match underlying t with Struct _ => true | _ => false end.
Definition is_type_alias (t : ty) : bool := match t with Alias _ _ => true | _ => false end.
Definition is_type_def (t : ty) : bool := match underlying t with Def _ _ => true | _ => false end.
(* CastTypeDef, reduced to what its callers read: the Underlying field of the definition *)
Definition cast_type_def (t : ty) : option ty := match underlying t with Def _ u => Some u | _ => None end.
Definition is_any (t : ty) : bool := match underlying t with Any => true | _ => false end.
Definition is_generic (t : ty) : bool := match underlying t with TParam _ => true | _ => false end.

(* ---- typedefs.go ---- *)

(* TrueUnderlying.  The Go function is
     if t is *TypeDef { t = t.Underlying }; t = GetUnderlying(t);
     if t is *TypeDef { return TrueUnderlying(t.Underlying) }; return t
   which is not structurally recursive; the definition below is, and TyProofs.true_underlying_go_eq
   proves that it satisfies exactly that equation. *)
Fixpoint true_underlying (t : ty) : ty :=
  match t with
  | Def _ u => true_underlying u
  | Alias _ u => true_underlying u
  | Inst _ a => true_underlying a
  | List e => List (underlying e)
  | _ => t
  end.

(* ---- list_type.go ---- *)

(* GetListElementType: the element type if typ is a list, typ itself (NOT its underlying) otherwise *)
Definition list_elem (t : ty) : ty := match underlying t with List e => e | _ => t end.

(* GetNestedListElementType: for IsList(typ) { typ = GetNestedListElementType(GetUnderlying(typ).ElementType) }.
   GetUnderlying(typ).ElementType is already an underlying type, so inside the recursion aliases are
   resolved; a non-list argument is returned unchanged (aliases kept). *)
Fixpoint nested_under (t : ty) : ty :=      (* GetNestedListElementType (GetUnderlying t) *)
  match t with
  | List e => nested_under e
  | Alias _ u => nested_under u
  | Inst _ a => nested_under a
  | _ => t
  end.
Definition nested_list_elem (t : ty) : ty := if is_list t then nested_under t else t.

(* getTrueListUnderlying: typ = TrueUnderlying(typ); if IsList(typ) { typ = List(getTrueListUnderlying(elem)) }
   (equation proved as TyProofs.true_list_underlying_go_eq) *)
Fixpoint true_list_underlying (t : ty) : ty :=
  match t with
  | Def _ u => true_list_underlying u
  | Alias _ u => true_list_underlying u
  | Inst _ a => true_list_underlying a
  | List e => List (true_list_underlying e)
  | _ => t
  end.

(* ListTrueUnderlying: typ = TrueUnderlying(typ); if IsList(typ) { typ = ListTrueUnderlying(elem) } *)
Fixpoint list_true_underlying (t : ty) : ty :=
  match t with
  | Def _ u => list_true_underlying u
  | Alias _ u => list_true_underlying u
  | Inst _ a => list_true_underlying a
  | List e => list_true_underlying e
  | _ => t
  end.

(* DeepEqual *)
Definition deep_equal (t1 t2 : ty) : bool := ty_eqb (true_list_underlying t1) (true_list_underlying t2).

(* ---- "ids identify objects": the heap of type objects the model stands for -------------------- *)

(* every node that stands for a heap object with content, anywhere inside t *)
Fixpoint nodes (t : ty) : list ty :=
  match t with
  | List e => nodes e
  | Alias _ u => t :: nodes u
  | Def _ u => t :: nodes u
  | Inst _ a => t :: nodes a
  | _ => []
  end.

(* two nodes of the same kind with the same id are the same object, hence have the same content *)
Definition same_obj (x y : ty) : bool :=
  match x, y with
  | Alias i u, Alias j v => if i =? j then ty_beq u v else true
  | Def i u, Def j v => if i =? j then ty_beq u v else true
  | Inst i u, Inst j v => if i =? j then ty_beq u v else true
  | _, _ => true
  end.

(* well-formedness of a population of types (boolean, so it can be evaluated on examples) *)
Definition wf_types (ts : list ty) : bool :=
  let ns := flat_map nodes ts in
  forallb (fun x => forallb (same_obj x) ns) ns.

Fixpoint size (t : ty) : nat :=
  match t with
  | List e => S (size e)
  | Alias _ u => S (size u)
  | Def _ u => S (size u)
  | Inst _ a => S (size a)
  | _ => 1%nat
  end.

(* contexts in which the property demands transparency: inside list types and behind aliases *)
Inductive ctx := Hole | CList (c : ctx) | CAlias (id : N) (c : ctx).
Fixpoint plug (c : ctx) (t : ty) : ty :=
  match c with
  | Hole => t
  | CList c' => List (plug c' t)
  | CAlias i c' => Alias i (plug c' t)
  end.
