(* Laws of the ddptypes relations (model: Ty.v). *)
From Coq Require Import List NArith Bool Lia.
Import ListNotations.
From DDP Require Import Types.Ty.
Open Scope N_scope.

(* ---- Go's == (ty_eqb) is an equivalence relation -------------------------------------------- *)
Lemma prim_eqb_eq p q : prim_eqb p q = true <-> p = q.
Proof. destruct p, q; cbn; split; congruence. Qed.
Lemma prim_eqb_refl p : prim_eqb p p = true.
Proof. destruct p; reflexivity. Qed.
Lemma prim_eqb_sym p q : prim_eqb p q = prim_eqb q p.
Proof. destruct p, q; reflexivity. Qed.

Lemma ty_eqb_refl a : ty_eqb a a = true.
Proof. induction a; cbn; auto using prim_eqb_refl, N.eqb_refl. Qed.

Lemma ty_eqb_sym a b : ty_eqb a b = ty_eqb b a.
Proof. revert b; induction a; intros []; cbn; auto using prim_eqb_sym, N.eqb_sym. Qed.

Lemma ty_eqb_trans a b c : ty_eqb a b = true -> ty_eqb b c = true -> ty_eqb a c = true.
Proof.
  revert b c; induction a; intros [] []; cbn; intros H1 H2; try discriminate H1; try discriminate H2;
    try (apply N.eqb_eq in H1, H2; subst; apply N.eqb_refl);
    try (apply prim_eqb_eq in H1, H2; subst; apply prim_eqb_refl); eauto.
Qed.

Lemma ty_beq_eq a b : ty_beq a b = true <-> a = b.
Proof.
  revert b; induction a as [p| | |e IH|i u IH|i u IH|i|n|i u IH]; intros b; destruct b; cbn; split; intros H;
    try discriminate H; try reflexivity;
    try (apply prim_eqb_eq in H; congruence);
    try (inversion H; subst; apply prim_eqb_refl);
    try (apply N.eqb_eq in H; congruence);
    try (inversion H; subst; apply N.eqb_refl);
    try (apply IH in H; congruence);
    try (inversion H; subst; apply IH; reflexivity);
    try (apply andb_true_iff in H; destruct H as [H1 H2]; apply N.eqb_eq in H1; apply IH in H2; congruence);
    try (inversion H; subst; rewrite N.eqb_refl; cbn; apply IH; reflexivity).
Qed.

(* ---- Equal is an equivalence relation (kernel of GetUnderlying) ------------------------------ *)
Lemma equal_refl t : equal t t = true.
Proof. apply ty_eqb_refl. Qed.
Lemma equal_sym a b : equal a b = equal b a.
Proof. apply ty_eqb_sym. Qed.
Lemma equal_trans a b c : equal a b = true -> equal b c = true -> equal a c = true.
Proof. apply ty_eqb_trans. Qed.

Lemma deep_equal_refl t : deep_equal t t = true.
Proof. apply ty_eqb_refl. Qed.
Lemma deep_equal_sym a b : deep_equal a b = deep_equal b a.
Proof. apply ty_eqb_sym. Qed.
Lemma deep_equal_trans a b c : deep_equal a b = true -> deep_equal b c = true -> deep_equal a c = true.
Proof. apply ty_eqb_trans. Qed.

Lemma underlying_idem t : underlying (underlying t) = underlying t.
Proof. induction t; cbn; congruence. Qed.

Lemma equal_underlying_l a b : equal (underlying a) b = equal a b.
Proof. unfold equal. rewrite underlying_idem. reflexivity. Qed.

(* ---- alias transparency ----------------------------------------------------------------------- *)
Lemma equal_alias i t : equal (Alias i t) t = true.
Proof. unfold equal; cbn. apply ty_eqb_refl. Qed.

Lemma equal_list a b : equal (List a) (List b) = equal a b.
Proof. reflexivity. Qed.

Lemma equal_alias_l i a b : equal (Alias i a) b = equal a b.
Proof. reflexivity. Qed.
Lemma equal_alias_r i a b : equal a (Alias i b) = equal a b.
Proof. reflexivity. Qed.

(* Equal is a congruence for the contexts "inside list types and behind aliases" *)
Lemma equal_plug c a b : equal (plug c a) (plug c b) = equal a b.
Proof. induction c as [|c IH|i c IH]; cbn [plug]; [reflexivity| rewrite equal_list; exact IH | rewrite equal_alias_l, equal_alias_r; exact IH]. Qed.

Theorem alias_transparent_everywhere c i t : equal (plug c (Alias i t)) (plug c t) = true.
Proof. rewrite equal_plug. apply equal_alias. Qed.

(* behind any number of further aliases *)
Fixpoint aliases (ids : list N) (t : ty) : ty :=
  match ids with [] => t | i :: r => Alias i (aliases r t) end.
Lemma equal_aliases ids t : equal (aliases ids t) t = true.
Proof. induction ids as [|i r IH]; cbn [aliases]; [apply equal_refl| rewrite equal_alias_l; exact IH]. Qed.

(* an alias can replace its target in every relation question *)
Theorem alias_substitutable i t x : equal (Alias i t) x = equal t x /\ equal x (Alias i t) = equal x t.
Proof. split; reflexivity. Qed.

(* declarative reading: the least congruence (for list-of) that identifies an alias (and a resolved
   type parameter) with its target *)
Inductive teq : ty -> ty -> Prop :=
| teq_refl t : teq t t
| teq_sym a b : teq a b -> teq b a
| teq_trans a b c : teq a b -> teq b c -> teq a c
| teq_alias i t : teq (Alias i t) t
| teq_inst i t : teq (Inst i t) t
| teq_list a b : teq a b -> teq (List a) (List b).

Lemma teq_sound a b : teq a b -> equal a b = true.
Proof.
  induction 1 as [t|a b _ IH|a b c _ IH1 _ IH2|i t|i t|a b _ IH].
  - apply equal_refl.
  - rewrite equal_sym; exact IH.
  - eapply equal_trans; eassumption.
  - apply equal_alias.
  - unfold equal; cbn; apply ty_eqb_refl.
  - rewrite equal_list; exact IH.
Qed.

Lemma teq_underlying t : teq t (underlying t).
Proof.
  induction t as [p| | |e IH|i u IH|i u IH|i|n|i u IH]; cbn [underlying]; try apply teq_refl.
  - apply teq_list; exact IH.
  - eapply teq_trans; [apply teq_alias| exact IH].
  - eapply teq_trans; [apply teq_inst| exact IH].
Qed.

(* ---- ids identify objects ------------------------------------------------------------------- *)
Definition consistent (ns : list ty) : Prop := forall x y, In x ns -> In y ns -> same_obj x y = true.

Lemma wf_types_spec ts : wf_types ts = true <-> consistent (flat_map nodes ts).
Proof.
  unfold wf_types, consistent. rewrite forallb_forall. split.
  - intros H x y Hx Hy. specialize (H x Hx). rewrite forallb_forall in H. apply H; exact Hy.
  - intros H x Hx. rewrite forallb_forall. intros y Hy. apply H; assumption.
Qed.

Lemma consistent_incl ns ms : incl ms ns -> consistent ns -> consistent ms.
Proof. intros Hi Hc x y Hx Hy. apply Hc; apply Hi; assumption. Qed.

Lemma nodes_underlying t : incl (nodes (underlying t)) (nodes t).
Proof.
  induction t as [p| | |e IH|i u IH|i u IH|i|n|i u IH]; cbn [underlying nodes]; try apply incl_refl; try exact IH.
  - apply incl_tl; exact IH.
  - apply incl_tl; exact IH.
Qed.

(* under consistency, Go's pointer-based == is structural identity of the modelled objects *)
Lemma ty_eqb_eq_consistent a b :
  (forall x y, In x (nodes a) -> In y (nodes b) -> same_obj x y = true) ->
  ty_eqb a b = true -> a = b.
Proof.
  revert b; induction a as [p| | |e IH|i u _|i u _|i|n|i u _]; intros b Hc H; destruct b; cbn in H; try discriminate H; try reflexivity.
  - apply prim_eqb_eq in H; congruence.
  - f_equal. apply IH; [|exact H]. intros x y Hx Hy. apply Hc; cbn [nodes]; assumption.
  - apply N.eqb_eq in H; subst.
    specialize (Hc (Alias id u) (Alias id b) (or_introl eq_refl) (or_introl eq_refl)). cbn in Hc.
    rewrite N.eqb_refl in Hc. apply ty_beq_eq in Hc. congruence.
  - apply N.eqb_eq in H; subst.
    specialize (Hc (Def id u) (Def id b) (or_introl eq_refl) (or_introl eq_refl)). cbn in Hc.
    rewrite N.eqb_refl in Hc. apply ty_beq_eq in Hc. congruence.
  - apply N.eqb_eq in H; congruence.
  - apply N.eqb_eq in H; congruence.
  - apply N.eqb_eq in H; subst.
    specialize (Hc (Inst id u) (Inst id b) (or_introl eq_refl) (or_introl eq_refl)). cbn in Hc.
    rewrite N.eqb_refl in Hc. apply ty_beq_eq in Hc. congruence.
Qed.

Lemma equal_same_underlying a b :
  wf_types [a; b] = true -> equal a b = true -> underlying a = underlying b.
Proof.
  intros Hwf H. apply wf_types_spec in Hwf. cbn [flat_map] in Hwf. rewrite app_nil_r in Hwf.
  apply ty_eqb_eq_consistent; [|exact H].
  intros x y Hx Hy. apply Hwf; apply in_or_app; [left|right]; apply nodes_underlying; assumption.
Qed.

(* Equal is exactly the declarative relation (on a well-formed population) *)
Theorem equal_iff_teq a b : wf_types [a; b] = true -> (equal a b = true <-> teq a b).
Proof.
  intros Hwf; split; [|apply teq_sound].
  intros H. apply (equal_same_underlying a b Hwf) in H.
  eapply teq_trans; [apply teq_underlying|]. rewrite H. apply teq_sym, teq_underlying.
Qed.

(* ---- definition opacity ------------------------------------------------------------------------ *)
Lemma underlying_def_in t j v : underlying t = Def j v -> In (Def j v) (nodes t).
Proof.
  induction t as [p| | |e IH|i u IH|i u IH|i|n|i u IH]; cbn [underlying nodes]; intros H; try discriminate H.
  - right; apply IH; exact H.
  - left; exact H.
  - right; apply IH; exact H.
Qed.

Lemma nodes_size x t : In x (nodes t) -> (size x <= size t)%nat.
Proof.
  induction t as [p| | |e IH|i u IH|i u IH|i|n|i u IH]; cbn [nodes size]; intros H; try contradiction.
  - apply IH in H; lia.
  - destruct H as [H|H]; [subst; cbn; lia| apply IH in H; lia].
  - destruct H as [H|H]; [subst; cbn; lia| apply IH in H; lia].
  - destruct H as [H|H]; [subst; cbn; lia| apply IH in H; lia].
Qed.

Theorem def_opaque i u : wf_types [Def i u] = true -> equal (Def i u) u = false.
Proof.
  intros Hwf. destruct (equal (Def i u) u) eqn:E; [exfalso|reflexivity].
  unfold equal in E. cbn [underlying] in E.
  destruct (underlying u) as [p| | |e|j v|j v|j|n|j v] eqn:U; cbn in E; try discriminate E.
  apply N.eqb_eq in E; subst j.
  apply underlying_def_in in U.
  apply wf_types_spec in Hwf. cbn [flat_map nodes] in Hwf. rewrite app_nil_r in Hwf.
  assert (Hs : same_obj (Def i u) (Def i v) = true) by (apply Hwf; [left; reflexivity| right; exact U]).
  cbn in Hs. rewrite N.eqb_refl in Hs. apply ty_beq_eq in Hs. subst v.
  apply nodes_size in U. cbn [size] in U. lia.
Qed.

Theorem def_opaque_everywhere c i u :
  wf_types [Def i u] = true -> equal (plug c (Def i u)) (plug c u) = false.
Proof. intros H. rewrite equal_plug. apply def_opaque; exact H. Qed.

(* two definitions are equivalent iff they are the same object, whatever their bases *)
Theorem def_equal_iff_same_id i u j v : equal (Def i u) (Def j v) = (i =? j).
Proof. reflexivity. Qed.

Theorem def_equal_same_object i u j v :
  wf_types [Def i u; Def j v] = true -> (equal (Def i u) (Def j v) = true <-> Def i u = Def j v).
Proof.
  intros Hwf; split; intros H; [|rewrite H; apply equal_refl].
  apply (equal_same_underlying _ _ Hwf) in H. exact H.
Qed.

Theorem def_distinct_same_base i j u : i <> j -> equal (Def i u) (Def j u) = false.
Proof. intros H. rewrite def_equal_iff_same_id. apply N.eqb_neq; exact H. Qed.

(* a definition is not declaratively equivalent to its base either *)
Corollary def_not_teq i u : wf_types [Def i u] = true -> ~ teq (Def i u) u.
Proof. intros Hwf H. apply teq_sound in H. rewrite (def_opaque i u Hwf) in H. discriminate H. Qed.

(* a definition is never numeric / a list / Variable, whatever its base: no implicit conversion *)
Lemma def_not_numeric i u : is_numeric (Def i u) = false.
Proof. reflexivity. Qed.
Lemma def_not_any i u : is_any (Def i u) = false.
Proof. reflexivity. Qed.
Lemma def_not_list i u : is_list (Def i u) = false.
Proof. reflexivity. Qed.

(* ---- the structurally recursive helpers satisfy the equations of the Go functions --------------- *)
Definition go_true_underlying_body (t : ty) : ty :=
  let t1 := match t with Def _ u => u | _ => t end in
  match underlying t1 with Def _ u' => true_underlying u' | t2 => t2 end.

Lemma true_underlying_step t :
  true_underlying t = match underlying t with Def _ u' => true_underlying u' | t2 => t2 end.
Proof. induction t as [p| | |e IH|i u IH|i u IH|i|n|i u IH]; cbn [true_underlying underlying]; try reflexivity; exact IH. Qed.

Theorem true_underlying_go_eq t : true_underlying t = go_true_underlying_body t.
Proof.
  unfold go_true_underlying_body. destruct t; try apply true_underlying_step.
  cbn [true_underlying]. apply true_underlying_step.
Qed.

Lemma true_underlying_fixed t : underlying (true_underlying t) = true_underlying t.
Proof. induction t; cbn [true_underlying underlying]; try reflexivity; try assumption. rewrite underlying_idem; reflexivity. Qed.

Lemma tlu_underlying t : true_list_underlying (underlying t) = true_list_underlying t.
Proof. induction t; cbn [true_list_underlying underlying]; congruence. Qed.
Lemma ltu_underlying t : list_true_underlying (underlying t) = list_true_underlying t.
Proof. induction t; cbn [list_true_underlying underlying]; congruence. Qed.

Theorem true_list_underlying_go_eq t :
  true_list_underlying t = match true_underlying t with List e => List (true_list_underlying e) | x => x end.
Proof.
  induction t as [p| | |e IH|i u IH|i u IH|i|n|i u IH]; cbn [true_list_underlying true_underlying]; try reflexivity; try exact IH.
  rewrite tlu_underlying. reflexivity.
Qed.

Theorem list_true_underlying_go_eq t :
  list_true_underlying t = match true_underlying t with List e => list_true_underlying e | x => x end.
Proof.
  induction t as [p| | |e IH|i u IH|i u IH|i|n|i u IH]; cbn [list_true_underlying true_underlying]; try reflexivity; try exact IH.
  rewrite ltu_underlying. reflexivity.
Qed.

Lemma nested_under_underlying t : nested_under (underlying t) = nested_under t.
Proof. induction t; cbn [nested_under underlying]; congruence. Qed.
Lemma nested_under_not_list t : is_list (nested_under t) = false.
Proof. induction t; cbn [nested_under]; try reflexivity; assumption. Qed.

(* the loop `for IsList(typ) { typ = GetNestedListElementType(GetUnderlying(typ).ElementType) }` *)
Theorem nested_list_elem_go_eq t :
  nested_list_elem t =
    match underlying t with
    | List e => nested_list_elem (nested_list_elem e)   (* one iteration, then the loop test again *)
    | _ => t
    end.
Proof.
  unfold nested_list_elem at 1. unfold is_list. destruct (underlying t) as [p| | |e|j v|j v|j|n|j v] eqn:U; try reflexivity.
  assert (He : nested_under t = nested_under e).
  { rewrite <- (nested_under_underlying t), U. reflexivity. }
  rewrite He.
  assert (Hn : forall x, is_list x = false -> nested_list_elem x = x) by (intros x Hx; unfold nested_list_elem; rewrite Hx; reflexivity).
  unfold nested_list_elem at 2. destruct (is_list e) eqn:L.
  - rewrite Hn; [reflexivity| apply nested_under_not_list].
  - rewrite (Hn e L).
    (* e is the element of an underlying list type, not a list: nested_under e = e *)
    assert (Hu : underlying e = e).
    { assert (H := underlying_idem t). rewrite U in H. cbn [underlying] in H. congruence. }
    clear -L Hu. destruct e; cbn [nested_under]; try reflexivity; cbn [underlying] in Hu.
    + unfold is_list in L; cbn in L; discriminate L.
    + exfalso. assert (Hs := f_equal size Hu). cbn [size] in Hs.
      assert (Hle : (size (underlying e) <= size e)%nat) by (clear; induction e; cbn [underlying size]; lia). lia.
    + exfalso. assert (Hs := f_equal size Hu). cbn [size] in Hs.
      assert (Hle : (size (underlying e) <= size e)%nat) by (clear; induction e; cbn [underlying size]; lia). lia.
Qed.

(* ---- non-vacuity: a population in which ids identify objects ------------------------------------ *)
Example wf_population :
  wf_types [Def 1 (Prim PZahl); Def 2 (Prim PZahl); Alias 3 (Def 1 (Prim PZahl)); List (Alias 4 (List (Def 2 (Prim PZahl))));
            Def 5 (Alias 3 (Def 1 (Prim PZahl))); Struct 6; Alias 7 Any] = true.
Proof. vm_compute. reflexivity. Qed.

Example ill_formed_population : wf_types [Def 1 (Prim PZahl); Def 1 (Prim PText)] = false.
Proof. vm_compute. reflexivity. Qed.
