(* Runs the extracted reference semantics (coq/Lang/RefSem.v, exec_program) on serialized programs.

   Case file (stdin), one program per line:
       P <id> <fuel> <program tokens...>
   Answer, one line per program:
       R <id> <N|L|F|U:<guard>> <stdout bytes as hex>
   N normal end (exit 0), L Laufzeitfehler (exit 1), F out of fuel, U undefined by the named guard.

   Token grammar (space separated, prefix form; produced by checks/ddpgen.py `serialize`):
     ty    ::= Z | K | B | W | C | T | L<ty>
     expr  ::= i <int> | f <bits> | b <0|1> | c <cp> | t <n> <cp>*n | v <id>
             | u <unop> expr | o <binop> expr expr | 3 <terop> expr expr expr | a expr ty
             | l <n> expr*n | e ty | k <fid> <n> arg*n
     arg   ::= V expr | R <id> <n> expr*n
     lval  ::= x <id> | y <id> expr
     block ::= <n> stmt*n
     stmt  ::= D ty <id> expr | A lval expr | I expr block block | W expr block | O block expr
             | N expr block | F ty <id> expr expr <0|1> [expr] block | E ty <id> <0|1> [<id>] expr block
             | B | C | T <0|1> [expr] | K block | X expr | P expr
     top   ::= G <fid> <n> (<id> ty <0|1>)*n <0|1> [ty] block | S stmt
     prog  ::= <n> top*n
   Further commands:
       L <id> <expr>          lowering model (Lower/Ops.v through Lower/Tie.v) on a closed single-operator
                              expression -> R <id> K:<ok|poison|reject|crash|none> <hex of what the code prints>
       M <id> <fuel> <prog>   compiler model (Lower/StmtCompile.v: compile_stmt + mblock) on a statement-only program of
                              the scalar fragment -> R <id> <N|L> <hex> | K:outside | K:stuck-or-fuel
       Q <id> <pexpr>         pexpr ::= A <n> | O <op> pexpr pexpr ; the Coq renderer of Lang/Prec.v ->
                              R <id> T:<roundtrip|DIFFERENT|NOPARSE> <tokens: a<n> ( ) o:<op> ist um vL vR>
   libm pow/log10 and the C format "%.16g" are supplied here (same libc as the runtime). *)
open C01_model
open Common

let rec pos_of_int i = if i = 1 then XH else if i land 1 = 0 then XO (pos_of_int (i / 2)) else XI (pos_of_int (i / 2))
let n_of_int i = if i = 0 then N0 else Npos (pos_of_int i)
let z_of_int i = if i = 0 then Z0 else if i > 0 then Zpos (pos_of_int i) else Zneg (pos_of_int (-i))
let rec int_of_pos = function XH -> 1 | XO p -> 2 * int_of_pos p | XI p -> 2 * int_of_pos p + 1
let int_of_z = function Z0 -> 0 | Zpos p -> int_of_pos p | Zneg p -> - (int_of_pos p)
let rec nat_of_int i = let r = ref O in for _ = 1 to i do r := S !r done; !r

let z10 = z_of_int 10
(* decimal string (optionally signed, up to 2^64) -> Z *)
let z_of_string s =
  let neg = String.length s > 0 && s.[0] = '-' in
  let acc = ref Z0 in
  String.iteri (fun i ch -> if not (i = 0 && neg) then
    acc := Z.add (Z.mul !acc z10) (z_of_int (Char.code ch - 48))) s;
  if neg then Z.opp !acc else !acc

(* Z in [0, 2^64) <-> Int64 bit pattern *)
let rec int64_of_pos = function
  | XH -> 1L
  | XO p -> Int64.shift_left (int64_of_pos p) 1
  | XI p -> Int64.logor (Int64.shift_left (int64_of_pos p) 1) 1L
let int64_of_z = function Z0 -> 0L | Zpos p -> int64_of_pos p | Zneg p -> Int64.neg (int64_of_pos p)
let z_of_int64_bits (b : int64) : z =
  (* unsigned interpretation *)
  let hi = Int64.to_int (Int64.shift_right_logical b 32) and lo = Int64.to_int (Int64.logand b 0xFFFFFFFFL) in
  Z.add (Z.mul (z_of_int hi) (z_of_int 4294967296)) (z_of_int lo)

let float_of_bits z = Int64.float_of_bits (int64_of_z z)
let bits_of_float f = z_of_int64_bits (Int64.bits_of_float f)

let pow_oracle a b = bits_of_float (Float.pow (float_of_bits a) (float_of_bits b))
let log10_oracle a = bits_of_float (Float.log10 (float_of_bits a))
let fmt_oracle a =
  let f = float_of_bits a in
  let s = if Float.is_nan f then "nan" else Printf.sprintf "%.16g" f in
  List.init (String.length s) (fun i -> z_of_int (Char.code s.[i]))

(* ---- parser over a token array ---- *)
let toks = ref [||]
let pos = ref 0
let next () = let t = !toks.(!pos) in incr pos; t
let next_int () = int_of_string (next ())
let rec many n f = if n <= 0 then [] else let x = f () in x :: many (n - 1) f

let rec p_ty_s s =
  match s.[0] with
  | 'Z' -> TZahl | 'K' -> TKomma | 'B' -> TByte | 'W' -> TBool | 'C' -> TChar | 'T' -> TText
  | 'L' -> TList (p_ty_s (String.sub s 1 (String.length s - 1)))
  | _ -> failwith ("type " ^ s)
let p_ty () = p_ty_s (next ())

let unop_of = function
  | "Abs" -> UAbs | "Len" -> ULen | "Neg" -> UNeg | "Not" -> UNot | "LogicNot" -> ULogicNot
  | s -> failwith ("unop " ^ s)
let binop_of = function
  | "And" -> BAnd | "Or" -> BOr | "Xor" -> BXor | "Concat" -> BConcat | "Plus" -> BPlus | "Minus" -> BMinus
  | "Mult" -> BMult | "Div" -> BDiv | "Index" -> BIndex | "Pow" -> BPow | "Log" -> BLog
  | "LogicAnd" -> BLogicAnd | "LogicOr" -> BLogicOr | "LogicXor" -> BLogicXor | "Mod" -> BMod
  | "Shl" -> BShl | "Shr" -> BShr | "Eq" -> BEq | "Ne" -> BNe | "Lt" -> BLt | "Gt" -> BGt | "Le" -> BLe
  | "Ge" -> BGe | "SliceTo" -> BSliceTo | "SliceFrom" -> BSliceFrom
  | s -> failwith ("binop " ^ s)
let terop_of = function
  | "Slice" -> TSlice | "Between" -> TBetween | "Falls" -> TFalls | s -> failwith ("terop " ^ s)

let p_id () = n_of_int (next_int ())

let rec p_expr () : expr =
  match next () with
  | "i" -> EInt (z_of_string (next ()))
  | "f" -> EFloat (z_of_string (next ()))
  | "b" -> EBool (next () = "1")
  | "c" -> EChar (z_of_string (next ()))
  | "t" -> let n = next_int () in EText (many n (fun () -> z_of_string (next ())))
  | "v" -> EVar (p_id ())
  | "u" -> let op = unop_of (next ()) in EUn (op, p_expr ())
  | "o" -> let op = binop_of (next ()) in let a = p_expr () in let b = p_expr () in EBin (op, a, b)
  | "3" -> let op = terop_of (next ()) in let a = p_expr () in let b = p_expr () in let c = p_expr () in ETer (op, a, b, c)
  | "a" -> let e = p_expr () in let t = p_ty () in ECast (e, t)
  | "l" -> let n = next_int () in EListLit (many n p_expr)
  | "e" -> EEmptyList (p_ty ())
  | "k" -> let f = p_id () in let n = next_int () in ECall (f, many n p_arg)
  | s -> failwith ("expr " ^ s)
and p_arg () : arg =
  match next () with
  | "V" -> AVal (p_expr ())
  | "R" -> let x = p_id () in let n = next_int () in ARef (x, many n p_expr)
  | s -> failwith ("arg " ^ s)

let p_lval () =
  match next () with
  | "x" -> LVar (p_id ())
  | "y" -> let x = p_id () in LIndex (x, p_expr ())
  | s -> failwith ("lval " ^ s)

let rec p_block () : stmt list = let n = next_int () in many n p_stmt
and p_stmt () : stmt =
  match next () with
  | "D" -> let t = p_ty () in let x = p_id () in SDecl (t, x, p_expr ())
  | "A" -> let l = p_lval () in SAssign (l, p_expr ())
  | "I" -> let c = p_expr () in let a = p_block () in let b = p_block () in SIf (c, a, b)
  | "W" -> let c = p_expr () in SWhile (c, p_block ())
  | "O" -> let b = p_block () in SDoWhile (b, p_expr ())
  | "N" -> let c = p_expr () in SRepeat (c, p_block ())
  | "F" -> let t = p_ty () in let x = p_id () in let a = p_expr () in let b = p_expr () in
           let st = if next () = "1" then Some (p_expr ()) else None in SFor (t, x, a, b, st, p_block ())
  | "E" -> let t = p_ty () in let x = p_id () in let ix = if next () = "1" then Some (p_id ()) else None in
           let e = p_expr () in SForEach (t, x, ix, e, p_block ())
  | "B" -> SBreak
  | "C" -> SContinue
  | "T" -> if next () = "1" then SReturn (Some (p_expr ())) else SReturn None
  | "K" -> SBlock (p_block ())
  | "X" -> SExpr (p_expr ())
  | "P" -> SPrint (p_expr ())
  | s -> failwith ("stmt " ^ s)

let p_top () : topitem =
  match next () with
  | "G" ->
    let f = p_id () in
    let n = next_int () in
    let ps = many n (fun () -> let x = p_id () in let t = p_ty () in let r = next () = "1" in
                               { p_name = x; p_ty = t; p_ref = r }) in
    let ret = if next () = "1" then Some (p_ty ()) else None in
    let body = p_block () in
    TopFunc { f_name = f; f_params = ps; f_ret = ret; f_body = body }
  | "S" -> TopStmt (p_stmt ())
  | s -> failwith ("top " ^ s)

let p_prog () = let n = next_int () in many n p_top

let hex_of bs =
  let b = Buffer.create 64 in
  List.iter (fun z -> Buffer.add_string b (Printf.sprintf "%02x" ((int_of_z z) land 255))) bs;
  Buffer.contents b

let guard_name = function
  | G_repeat_negative -> "repeat_negative"
  | G_bad_codepoint -> "bad_codepoint" | G_dangling_ref -> "dangling_ref" | G_ill_typed -> "ill_typed"
  | G_out_of_fragment -> "out_of_fragment"

let pop_of = function
  | "Or" -> POr | "And" -> PAnd | "LogicOr" -> PLOr | "LogicXor" -> PLXor | "LogicAnd" -> PLAnd | "Eq" -> PEq | "Ne" -> PNe
  | "Lt" -> PLt | "Gt" -> PGt | "Le" -> PLe | "Ge" -> PGe | "Shl" -> PShl | "Shr" -> PShr | "Plus" -> PPlus
  | "Minus" -> PMinus | "Concat" -> PConcat | "Mult" -> PMult | "Div" -> PDiv | "Mod" -> PMod | "Pow" -> PPow
  | s -> failwith ("pop " ^ s)
let pop_name = function
  | POr -> "Or" | PAnd -> "And" | PLOr -> "LogicOr" | PLXor -> "LogicXor" | PLAnd -> "LogicAnd" | PEq -> "Eq" | PNe -> "Ne"
  | PLt -> "Lt" | PGt -> "Gt" | PLe -> "Le" | PGe -> "Ge" | PShl -> "Shl" | PShr -> "Shr" | PPlus -> "Plus"
  | PMinus -> "Minus" | PConcat -> "Concat" | PMult -> "Mult" | PDiv -> "Div" | PMod -> "Mod" | PPow -> "Pow"
let rec p_pexpr () : pexpr =
  match next () with
  | "A" -> PAtom (p_id ())
  | "O" -> let o = pop_of (next ()) in let a = p_pexpr () in let b = p_pexpr () in PBin (o, a, b)
  | s -> failwith ("pexpr " ^ s)
let rec int_of_posn = function XH -> 1 | XO p -> 2 * int_of_posn p | XI p -> 2 * int_of_posn p + 1
let tok_text = function
  | KAtom n -> "a" ^ string_of_int (match n with N0 -> 0 | Npos p -> int_of_posn p)
  | KLP -> "(" | KRP -> ")" | KOp o -> "o:" ^ pop_name o | KIst -> "ist" | KUm -> "um"
  | KVerschoben true -> "vL" | KVerschoben false -> "vR"

let () =
  let lines = read_lines stdin in
  List.iter (fun line ->
    match split_ws line with
    | "P" :: id :: fuel :: rest ->
      (try
        toks := Array.of_list rest; pos := 0;
        let prog = p_prog () in
        let kind, outp =
          match exec_program pow_oracle log10_oracle fmt_oracle (nat_of_int (int_of_string fuel)) prog with
          | Normal o -> "N", o
          | Laufzeitfehler o -> "L", o
          | Undefined (g, o) -> "U:" ^ guard_name g, o
          | OutOfFuel o -> "F", o in
        Printf.printf "R %s %s %s\n" id kind (hex_of outp)
      with e -> Printf.printf "R %s X:%s -\n" id (String.map (fun c -> if c = ' ' then '_' else c) (Printexc.to_string e)))
    | "L" :: id :: rest ->
      (try
        toks := Array.of_list rest; pos := 0;
        let e = p_expr () in
        (match lower_top pow_oracle log10_oracle fmt_oracle e with
         | TieOk bs -> Printf.printf "R %s K:ok %s\n" id (hex_of bs)
         | TieErr -> Printf.printf "R %s K:err -\n" id
         | TiePoison -> Printf.printf "R %s K:poison -\n" id
         | TieReject -> Printf.printf "R %s K:reject -\n" id
         | TieCrash -> Printf.printf "R %s K:crash -\n" id
         | TieNone -> Printf.printf "R %s K:none -\n" id)
      with e -> Printf.printf "R %s X:%s -\n" id (String.map (fun c -> if c = ' ' then '_' else c) (Printexc.to_string e)))
    | "M" :: id :: fuel :: rest ->
      (* the compiler model of Lower/StmtCompile.v on a statement-only program of the scalar fragment *)
      (try
        toks := Array.of_list rest; pos := 0;
        let prog = p_prog () in
        let stmts = List.filter_map (function TopStmt s -> Some s | TopFunc _ -> None) prog in
        if List.length stmts <> List.length prog || not (block_ok (fun _ -> None) false stmts)
        then Printf.printf "R %s K:outside -\n" id
        else begin
          let r = mblock pow_oracle log10_oracle fmt_oracle (nat_of_int (int_of_string fuel)) [] init_mstate (List.map compile_stmt stmts) in
          match m_observe r with
          | Some (false, o) -> Printf.printf "R %s N %s\n" id (hex_of o)
          | Some (true, o) -> Printf.printf "R %s L %s\n" id (hex_of o)
          | None -> Printf.printf "R %s K:stuck-or-fuel -\n" id
        end
      with e -> Printf.printf "R %s X:%s -\n" id (String.map (fun c -> if c = ' ' then '_' else c) (Printexc.to_string e)))
    | "Q" :: id :: rest ->
      (try
        toks := Array.of_list rest; pos := 0;
        let e = p_pexpr () in
        let ts = render e in
        let back = match parse ts with Some e' -> if e' = e then "roundtrip" else "DIFFERENT" | None -> "NOPARSE" in
        Printf.printf "R %s T:%s %s\n" id back (String.concat " " (List.map tok_text ts))
      with e -> Printf.printf "R %s X:%s -\n" id (String.map (fun c -> if c = ' ' then '_' else c) (Printexc.to_string e)))
    | _ -> ()) lines
