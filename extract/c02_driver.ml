(* Runs the extracted C02 tables.  One case per input line, operators / types / fields addressed by their index
   in the extracted enumerations (all_unops, all_binops, all_terops, all_castops, all_tys, all_fields), so the
   driver names no operator constructor:

     U <op> <a>            | <ctx>*
     B <op> <a> <b>        | <ctx>*
     F <field> <a>         | <ctx>*
     T <op> <a> <b> <c>    | <ctx>*
     C <op> <a> <target>   | <ctx>*
     X <ctx> <t>                        context alone: "<admits> <ctx_ok>"
     S <kind> <t>*                      statement cell, kind = REPEAT WHILE IF LISTCOUNT LISTLIT INDEXASSIGN FOR FORSTEP
                                        FORRANGE: "<tc_stmt 0|1> <verdict R O I L>"

   <ctx> ::= VI | CO | EL | IN:<t> | AS:<t> | AR:<t> | RT:<t>
   answer: "<tc: type index or -> <cell_ok 0|1> <lowering: E | <wt 0|1>> <verdict per ctx: R O I L>*" *)
open C02_model
open Common

let rec nth l i = match l with [] -> failwith "index" | x :: r -> if i = 0 then x else nth r (i - 1)
let ty_of s = nth all_tys (int_of_string s)
let rec index_of x l i = match l with [] -> -1 | y :: r -> if y = x then i else index_of x r (i + 1)

let ctx_of s =
  match String.split_on_char ':' s with
  | ["VI"] -> CInitAny
  | ["CO"] -> CCond
  | ["EL"] -> CElem
  | ["IN"; t] -> CInit (ty_of t)
  | ["AS"; t] -> CAssign (ty_of t)
  | ["AR"; t] -> CArg (ty_of t)
  | ["RT"; t] -> CReturn (ty_of t)
  | _ -> failwith ("ctx " ^ s)

let show_verdict = function VReject -> "R" | VOk -> "O" | VInternal -> "I" | VLlvm -> "L"

let answer cell ctxs =
  let t = match tc cell with None -> "-" | Some t -> string_of_int (index_of t all_tys 0) in
  let ok = if cell_ok cell then "1" else "0" in
  let lw = match lower cell with Err -> "E" | Ok (d, v, c) -> if ir_well_typed (Ok (d, v, c)) then "1" else "0" in
  String.concat " " (t :: ok :: lw :: List.map (fun x -> show_verdict (verdict_of cell (ctx_of x))) ctxs)

let () =
  List.iter (fun line ->
    let (cellpart, ctxs) =
      match String.index_opt line '|' with
      | Some i -> (String.sub line 0 i, split_ws (String.sub line (i + 1) (String.length line - i - 1)))
      | None -> (line, []) in
    match split_ws cellpart with
    | ["U"; op; a] -> print_endline (answer (CUn (nth all_unops (int_of_string op), ty_of a)) ctxs)
    | ["B"; op; a; b] -> print_endline (answer (CBin (nth all_binops (int_of_string op), ty_of a, ty_of b)) ctxs)
    | ["F"; f; a] -> print_endline (answer (CField (nth all_fields (int_of_string f), ty_of a)) ctxs)
    | ["T"; op; a; b; c] -> print_endline (answer (CTer (nth all_terops (int_of_string op), ty_of a, ty_of b, ty_of c)) ctxs)
    | ["C"; op; a; t] -> print_endline (answer (CCast (nth all_castops (int_of_string op), ty_of a, ty_of t)) ctxs)
    | ["X"; x; t] ->
      let c = ctx_of x and t = ty_of t in
      Printf.printf "%d %d\n" (if ctx_admits c t then 1 else 0) (if ctx_ok c t then 1 else 0)
    | "S" :: kind :: ts ->
      let st = match kind, List.map ty_of ts with
        | "REPEAT", [a] -> SRepeat a
        | "WHILE", [a] -> SWhile a
        | "IF", [a] -> SIf a
        | "LISTCOUNT", [a; b] -> SListCount (a, b)
        | "LISTLIT", [a; b] -> SListLit (a, b)
        | "INDEXASSIGN", [a; b; c] -> SIndexAssign (a, b, c)
        | "FOR", [a; b; c] -> SFor (a, b, c)
        | "FORSTEP", [a; b; c; d] -> SForStep (a, b, c, d)
        | "FORRANGE", [a; b] -> SForRange (a, b)
        | _ -> failwith ("stmt " ^ line) in
      Printf.printf "%d %s\n" (if tc_stmt st then 1 else 0) (show_verdict (verdict_stmt st))
    | [] -> ()
    | _ -> print_endline "?") (read_lines stdin)
