(* Runs the extracted C04 model (coq/Lang/Mini*.v) on core programs given as s-expressions.
   Input lines:
     P <sexp of a prog>     answer:  B <wfb> <check diags> <check_pinned diags> <quirk_free> <shadow_free>
                             then one line per mutant of every fault class (Coq's MiniMutate.mutants):
                                     M <fault> <index> <wfb> <check diags> ? <sexp of the mutant>
                             then    E
     C <sexp of a prog>     answer:  B <wfb> <check diags> <check_pinned diags>      (no mutants)
     (check = the frontend as it is now, check_pinned = the pinned tree with its four defects)
     Q <flags> <sexp>       answer:  B <wfb> <check_with flags> -      flags = 5 chars 0/1: void_eq void_ret tc_by_name field_unimported field_name_lookup
   diags are a comma separated list of constructor names ("-" when empty). *)
open C04_model
open Common

let rec nat_of_int i = if i <= 0 then O else S (nat_of_int (i - 1))
let rec int_of_nat = function O -> 0 | S n -> 1 + int_of_nat n

(* ---- s-expressions ---- *)
type sx = A of string | L of sx list

let parse_sx (s : string) : sx =
  let n = String.length s in
  let pos = ref 0 in
  let rec skip () = if !pos < n && (s.[!pos] = ' ' || s.[!pos] = '\t') then (incr pos; skip ()) in
  let rec one () =
    skip ();
    if !pos >= n then failwith "eof"
    else if s.[!pos] = '(' then begin
      incr pos;
      let items = ref [] in
      let rec loop () =
        skip ();
        if !pos >= n then failwith "unclosed"
        else if s.[!pos] = ')' then incr pos
        else (items := one () :: !items; loop ()) in
      loop ();
      L (List.rev !items)
    end else begin
      let st = !pos in
      while !pos < n && s.[!pos] <> ' ' && s.[!pos] <> '(' && s.[!pos] <> ')' do incr pos done;
      A (String.sub s st (!pos - st))
    end in
  one ()

let rec show_sx = function
  | A a -> a
  | L l -> "(" ^ String.concat " " (List.map show_sx l) ^ ")"

let bad what x = failwith (what ^ ": " ^ show_sx x)

(* ---- decoding ---- *)
let d_name = function A a -> nat_of_int (int_of_string a) | x -> bad "name" x
let d_bool = function A "1" -> true | A "0" -> false | x -> bad "bool" x
let rec d_ty = function
  | A "Z" -> TZahl | A "K" -> TKomma | A "B" -> TByte | A "W" -> TBool | A "C" -> TChar | A "T" -> TText
  | L [A "L"; t] -> TList (d_ty t)
  | L [A "S"; n] -> TStruct (d_name n)
  | x -> bad "ty" x
let d_art = function A "der" -> Der | A "die" -> Die | A "das" -> Das | x -> bad "article" x
let d_lit = function
  | A "lz" -> LZahl | A "lk" -> LKomma | A "lb" -> LBool | A "lc" -> LChar | A "lt" -> LText | x -> bad "lit" x
let d_un = function A "not" -> UNot | A "neg" -> UNeg | A "len" -> ULen | x -> bad "unop" x
let d_bin = function
  | A "plus" -> BPlus | A "minus" -> BMinus | A "mal" -> BMal | A "durch" -> BDurch | A "mod" -> BMod
  | A "lt" -> BKleiner | A "gt" -> BGroesser | A "eq" -> BGleich | A "ne" -> BUngleich
  | A "and" -> BUnd | A "or" -> BOder | A "idx" -> BStelle
  | A "cat" -> BVerkettet | A "from" -> BAb | A "upto" -> BBis | x -> bad "binop" x
let rec d_expr = function
  | L [A "lit"; l] -> ELit (d_lit l)
  | L [A "empty"; t] -> EEmpty (d_ty t)
  | L [A "var"; n] -> EVar (d_name n)
  | L [A "un"; o; e] -> EUn (d_un o, d_expr e)
  | L [A "bin"; o; l; r] -> EBin (d_bin o, d_expr l, d_expr r)
  | L [A "cast"; e; t] -> ECast (d_expr e, d_ty t)
  | L [A "field"; f; e] -> EField (d_name f, d_expr e)
  | L (A "call" :: f :: a) -> ECall (d_name f, d_args a)
  | L [A "slice"; l; i; j] -> ESlice (d_expr l, d_expr i, d_expr j)
  | L (A "list" :: e :: a) -> EList (d_expr e, d_args a)
  | x -> bad "expr" x
and d_args = function [] -> ANil | e :: r -> ACons (d_expr e, d_args r)
let rec d_stmt = function
  | L [A "svar"; a; t; x; e] -> SVar (d_art a, d_ty t, d_name x, d_expr e)
  | L [A "sconst"; a; x; l] -> SConst (d_art a, d_name x, d_lit l)
  | L [A "assign"; x; e] -> SAssign (d_name x, d_expr e)
  | L [A "assignidx"; x; i; e] -> SAssignIdx (d_name x, d_expr i, d_expr e)
  | L [A "assignfield"; f; x; e] -> SAssignField (d_name f, d_name x, d_expr e)
  | L [A "foreach"; a; t; x; e; b] -> SForEach (d_art a, d_ty t, d_name x, d_expr e, d_block b)
  | L [A "repeat"; b; n] -> SRepeat (d_block b, d_expr n)
  | L [A "dowhile"; b; c] -> SDoWhile (d_block b, d_expr c)
  | L [A "if"; c; th; el] -> SIf (d_expr c, d_block th, d_block el)
  | L [A "while"; c; b] -> SWhile (d_expr c, d_block b)
  | L [A "for"; a; t; x; f; to_; st; b] ->
    let st = (match st with L [A "none"] -> None | L [A "some"; e] -> Some (d_expr e) | x -> bad "step" x) in
    SFor (d_art a, d_ty t, d_name x, d_expr f, d_expr to_, st, d_block b)
  | L [A "break"] -> SBreak
  | L [A "continue"] -> SContinue
  | L [A "ret"] -> SReturn None
  | L [A "ret"; e] -> SReturn (Some (d_expr e))
  | L [A "block"; b] -> SBlock (d_block b)
  | L (A "scall" :: f :: a) -> SCall (d_name f, d_args a)
  | x -> bad "stmt" x
and d_block = function
  | L (A "blk" :: ss) -> List.fold_right (fun s b -> BCons (d_stmt s, b)) ss BNil
  | x -> bad "block" x
let d_param = function L [x; t; r] -> ((d_name x, d_ty t), d_bool r) | x -> bad "param" x
let d_ret = function
  | L [A "ret"; A "none"] -> None
  | L [A "ret"; a; t] -> Some (d_art a, d_ty t)
  | x -> bad "fret" x
let d_top = function
  | L [A "fun"; n; L (A "params" :: ps); r; b] ->
    TFun { f_name = d_name n; f_params = List.map d_param ps; f_ret = d_ret r; f_body = d_block b }
  | L [A "stmt"; s] -> TStmt (d_stmt s)
  | x -> bad "top" x
let d_pty = function L [t; r] -> (d_ty t, d_bool r) | x -> bad "pty" x
let d_field = function L [p; n; t] -> ((d_bool p, d_name n), d_ty t) | x -> bad "field" x
let d_idecl = function
  | L [A "ivar"; p; x; t] -> IVar (d_bool p, d_name x, d_ty t)
  | L [A "iconst"; p; x; t] -> IConst (d_bool p, d_name x, d_ty t)
  | L [A "ifun"; p; f; L ps; r] ->
    IFun (d_bool p, d_name f, List.map d_pty ps, (match r with A "none" -> None | t -> Some (d_ty t)))
  | L [A "istruct"; p; s; g; L fs] -> IStruct (d_bool p, d_name s, d_art g, List.map d_field fs)
  | L [A "ialias"; c; s; L fs] -> IAlias (d_name c, d_name s, List.map d_name fs)
  | x -> bad "idecl" x
let d_import = function
  | L [A "none"] -> ImpNone
  | L [A "all"] -> ImpAll
  | L (A "some" :: xs) -> ImpSome (List.map d_name xs)
  | x -> bad "import" x
let d_prog = function
  | L [A "prog"; L (A "mod" :: ds); i; L (A "tops" :: ts)] ->
    { p_mod = List.map d_idecl ds; p_imp = d_import i; p_tops = List.map d_top ts }
  | x -> bad "prog" x

(* ---- encoding ---- *)
let e_name n = A (string_of_int (int_of_nat n))
let e_bool b = A (if b then "1" else "0")
let rec e_ty = function
  | TZahl -> A "Z" | TKomma -> A "K" | TByte -> A "B" | TBool -> A "W" | TChar -> A "C" | TText -> A "T"
  | TList t -> L [A "L"; e_ty t]
  | TStruct s -> L [A "S"; e_name s]
let e_art = function Der -> A "der" | Die -> A "die" | Das -> A "das"
let e_lit = function LZahl -> A "lz" | LKomma -> A "lk" | LBool -> A "lb" | LChar -> A "lc" | LText -> A "lt"
let e_un = function UNot -> A "not" | UNeg -> A "neg" | ULen -> A "len"
let e_bin = function
  | BPlus -> A "plus" | BMinus -> A "minus" | BMal -> A "mal" | BDurch -> A "durch" | BMod -> A "mod"
  | BKleiner -> A "lt" | BGroesser -> A "gt" | BGleich -> A "eq" | BUngleich -> A "ne"
  | BUnd -> A "and" | BOder -> A "or" | BStelle -> A "idx"
  | BVerkettet -> A "cat" | BAb -> A "from" | BBis -> A "upto"
let rec e_expr = function
  | ELit l -> L [A "lit"; e_lit l]
  | EEmpty t -> L [A "empty"; e_ty t]
  | EVar x -> L [A "var"; e_name x]
  | EUn (o, e) -> L [A "un"; e_un o; e_expr e]
  | EBin (o, l, r) -> L [A "bin"; e_bin o; e_expr l; e_expr r]
  | ECast (e, t) -> L [A "cast"; e_expr e; e_ty t]
  | EField (f, e) -> L [A "field"; e_name f; e_expr e]
  | ECall (f, a) -> L (A "call" :: e_name f :: e_args a)
  | ESlice (l, i, j) -> L [A "slice"; e_expr l; e_expr i; e_expr j]
  | EList (e, a) -> L (A "list" :: e_expr e :: e_args a)
and e_args = function ANil -> [] | ACons (e, a) -> e_expr e :: e_args a
let rec e_stmt = function
  | SVar (a, t, x, e) -> L [A "svar"; e_art a; e_ty t; e_name x; e_expr e]
  | SConst (a, x, l) -> L [A "sconst"; e_art a; e_name x; e_lit l]
  | SAssign (x, e) -> L [A "assign"; e_name x; e_expr e]
  | SAssignIdx (x, i, e) -> L [A "assignidx"; e_name x; e_expr i; e_expr e]
  | SAssignField (f, x, e) -> L [A "assignfield"; e_name f; e_name x; e_expr e]
  | SForEach (a, t, x, e, b) -> L [A "foreach"; e_art a; e_ty t; e_name x; e_expr e; e_block b]
  | SRepeat (b, n) -> L [A "repeat"; e_block b; e_expr n]
  | SDoWhile (b, c) -> L [A "dowhile"; e_block b; e_expr c]
  | SIf (c, th, el) -> L [A "if"; e_expr c; e_block th; e_block el]
  | SWhile (c, b) -> L [A "while"; e_expr c; e_block b]
  | SFor (a, t, x, f, to_, st, b) ->
    L [A "for"; e_art a; e_ty t; e_name x; e_expr f; e_expr to_;
       (match st with None -> L [A "none"] | Some e -> L [A "some"; e_expr e]); e_block b]
  | SBreak -> L [A "break"]
  | SContinue -> L [A "continue"]
  | SReturn None -> L [A "ret"]
  | SReturn (Some e) -> L [A "ret"; e_expr e]
  | SBlock b -> L [A "block"; e_block b]
  | SCall (f, a) -> L (A "scall" :: e_name f :: e_args a)
and e_block b =
  let rec go = function BNil -> [] | BCons (s, r) -> e_stmt s :: go r in
  L (A "blk" :: go b)
let e_top = function
  | TFun f ->
    L [A "fun"; e_name f.f_name;
       L (A "params" :: List.map (fun ((x, t), r) -> L [e_name x; e_ty t; e_bool r]) f.f_params);
       (match f.f_ret with None -> L [A "ret"; A "none"] | Some (a, t) -> L [A "ret"; e_art a; e_ty t]);
       e_block f.f_body]
  | TStmt s -> L [A "stmt"; e_stmt s]
let e_idecl = function
  | IVar (p, x, t) -> L [A "ivar"; e_bool p; e_name x; e_ty t]
  | IConst (p, x, t) -> L [A "iconst"; e_bool p; e_name x; e_ty t]
  | IFun (p, f, ps, r) ->
    L [A "ifun"; e_bool p; e_name f; L (List.map (fun (t, r) -> L [e_ty t; e_bool r]) ps);
       (match r with None -> A "none" | Some t -> e_ty t)]
  | IStruct (p, s, g, fs) ->
    L [A "istruct"; e_bool p; e_name s; e_art g; L (List.map (fun ((p, n), t) -> L [e_bool p; e_name n; e_ty t]) fs)]
  | IAlias (c, s, fs) -> L [A "ialias"; e_name c; e_name s; L (List.map e_name fs)]
let e_import = function
  | ImpNone -> L [A "none"]
  | ImpAll -> L [A "all"]
  | ImpSome xs -> L (A "some" :: List.map e_name xs)
let e_prog p =
  L [A "prog"; L (A "mod" :: List.map e_idecl p.p_mod); e_import p.p_imp; L (A "tops" :: List.map e_top p.p_tops)]

let diag_name = function
  | DBadType -> "DBadType" | DArticle -> "DArticle" | DUnknownFun -> "DUnknownFun" | DBadRef -> "DBadRef"
  | DConstRef -> "DConstRef" | DConstAssign -> "DConstAssign" | DUndef -> "DUndef" | DNotVar -> "DNotVar"
  | DDup -> "DDup" | DBreak -> "DBreak" | DGlobalReturn -> "DGlobalReturn" | DMissingReturn -> "DMissingReturn"
  | DImportUndef -> "DImportUndef" | DTypeOp -> "DTypeOp" | DTypeCast -> "DTypeCast" | DNoField -> "DNoField"
  | DPrivField -> "DPrivField" | DTypeArg -> "DTypeArg" | DTypeInit -> "DTypeInit" | DTypeAssign -> "DTypeAssign"
  | DTypeCond -> "DTypeCond" | DTypeFor -> "DTypeFor" | DTypeRet -> "DTypeRet" | DPanic -> "DPanic"
let diags l = if l = [] then "-" else String.concat "," (List.map diag_name l)

let fault_name = function
  | FUndeclared -> "FUndeclared" | FOutOfScope -> "FOutOfScope" | FRedeclare -> "FRedeclare"
  | FWrongOperand -> "FWrongOperand" | FWrongArg -> "FWrongArg" | FWrongInit -> "FWrongInit"
  | FWrongAssign -> "FWrongAssign" | FWrongCond -> "FWrongCond" | FWrongBound -> "FWrongBound"
  | FWrongReturn -> "FWrongReturn" | FConstAssign -> "FConstAssign" | FConstRef -> "FConstRef"
  | FBreakOutside -> "FBreakOutside" | FMissingReturn -> "FMissingReturn" | FPrivate -> "FPrivate"
  | FArticle -> "FArticle" | FConstElem -> "FConstElem" | FWrongElemValue -> "FWrongElemValue"
  | FWrongIter -> "FWrongIter" | FWrongListElem -> "FWrongListElem"

let verdicts p = Printf.sprintf "%d %s %s" (if wfb p then 1 else 0) (diags (check p)) (diags (check_pinned p))

let () =
  let rec loop () =
    match input_line stdin with
    | exception End_of_file -> ()
    | line ->
      (if String.length line > 2 then
         let body = String.sub line 2 (String.length line - 2) in
         match line.[0] with
         | 'C' -> let p = d_prog (parse_sx body) in Printf.printf "B %s %d %d\n" (verdicts p) (if quirk_free p then 1 else 0) (if shadow_free p then 1 else 0)
         | 'P' ->
           let p = d_prog (parse_sx body) in
           Printf.printf "B %s %d %d\n" (verdicts p) (if quirk_free p then 1 else 0) (if shadow_free p then 1 else 0);
           List.iter (fun fc ->
               List.iteri (fun i m -> Printf.printf "M %s %d %d %s ? %s\n" (fault_name fc) i (if wfb m then 1 else 0) (diags (check m)) (show_sx (e_prog m)))
                 (mutants fc p)) all_faults;
           print_endline "E"
         | 'Q' ->
           let fl = String.sub body 0 5 in
           let p = d_prog (parse_sx (String.sub body 6 (String.length body - 6))) in
           let q = { q_void_eq = fl.[0] = '1'; q_void_ret = fl.[1] = '1'; q_tc_by_name = fl.[2] = '1'; q_field_unimported = fl.[3] = '1';
                     q_field_name_lookup = fl.[4] = '1' } in
           Printf.printf "B %d %s -\n" (if wfb p then 1 else 0) (diags (check_with q p))
         | _ -> ());
      flush stdout;
      loop () in
  loop ()
