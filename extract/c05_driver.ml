(* C05 model driver. One case per line, one answer line per case.
     L p o n r ; p o n r ; ...     judge a real ledger with the extracted, proved checker
         -> "B" balanced | "X <index> <reason> <p> <o> <n> <r>" first offending event | "K <p>:<size> ..." leaked blocks
     M <fuel> <oracle: string of 0/1 or -> <program s-expression>
         compile the skeleton with the extracted Own.compile, run it with the oracle
         -> "N" does not compile | "S<0|1> F" no normal termination within the fuel
          | "S<0|1> <verdict as above> # p o n r ; ..."   S1: accepted by the extracted static discipline (OwnCheck.program_ok);
            then the model's ledger and the checker's verdict on it
   Skeleton syntax (see checks/c05.py, class Sk):
     expr  P | (V x) | (Q x k) | (L n) | (U1 e) | (U2 a b) | (D e n) | (G e k) | (C a b) | (B n e..) | (F f arg..) | (X n|- arg..) | (A a b) | (I c a b)
     arg   (v e) | (r x)
     stmt  K | (S s..) | (d x e) | (= x e) | (p x k e) | (e e) | (b s) | (i c a b) | (w c b) | (o b c) | (r c k b)
           | (f from to step 0|1 k b) | (E x n|- e k b) | B | N | (R) | (R e)
     prog  (prog ((fun 0|1 ((x v|r|c 0|1)..) body)..) main) *)
open C05_model
open Common

let rec pos_of_int i = if i = 1 then XH else if i land 1 = 0 then XO (pos_of_int (i lsr 1)) else XI (pos_of_int (i lsr 1))
let n_of_int i = if i = 0 then N0 else Npos (pos_of_int i)
let rec int_of_pos = function XH -> 1 | XO p -> 2 * int_of_pos p | XI p -> 2 * int_of_pos p + 1
let int_of_n = function N0 -> 0 | Npos p -> int_of_pos p
let ni s = n_of_int (int_of_string s)
let rec nat_of_int i = if i <= 0 then O else S (nat_of_int (i - 1))
let nat s = nat_of_int (int_of_string s)

let reason_name = function RNullSized -> "null-with-size" | RNotLive -> "not-live" | RWrongSize -> "wrong-size" | RBadResult -> "bad-result"

let parse_ledger toks =
  let rec go acc = function
    | p :: o :: n :: r :: rest ->
      let ev = { e_ptr = ni p; e_old = ni o; e_new = ni n; e_res = ni r } in
      (match rest with ";" :: rest' -> go (ev :: acc) rest' | _ -> go (ev :: acc) rest)
    | _ -> List.rev acc in
  go [] toks

let show_verdict v =
  match v with
  | Balanced -> "B"
  | BadEvent (i, e, why) ->
    Printf.sprintf "X %d %s %d %d %d %d" (int_of_n i) (reason_name why) (int_of_n e.e_ptr) (int_of_n e.e_old) (int_of_n e.e_new) (int_of_n e.e_res)
  | Leaked bl -> String.concat " " ("K" :: List.map (fun (p, n) -> Printf.sprintf "%d:%d" (int_of_n p) (int_of_n n)) bl)

(* ---- s-expressions *)
type sx = A of string | Lx of sx list
let tokenize s =
  let b = Buffer.create 16 and out = ref [] in
  let flush () = if Buffer.length b > 0 then (out := Buffer.contents b :: !out; Buffer.clear b) in
  String.iter (fun c -> match c with
    | '(' | ')' -> flush (); out := String.make 1 c :: !out
    | ' ' | '\t' -> flush ()
    | c -> Buffer.add_char b c) s;
  flush (); List.rev !out
let parse_sx toks =
  let rec one = function
    | "(" :: r -> let (l, r') = many r in (Lx l, r')
    | ")" :: _ -> failwith "unexpected )"
    | a :: r -> (A a, r)
    | [] -> failwith "eof"
  and many = function
    | ")" :: r -> ([], r)
    | [] -> failwith "eof in list"
    | toks -> let (x, r) = one toks in let (xs, r') = many r in (x :: xs, r') in
  fst (one toks)

let optn = function A "-" -> None | A s -> Some (ni s) | _ -> failwith "optn"
let rec expr = function
  | A "P" -> EPrim
  | Lx [A "V"; A x] -> EVar (nat x)
  | Lx [A "Q"; A x; A k] -> EPart (nat x, nat k)
  | Lx [A "L"; A n] -> ELit (ni n)
  | Lx [A "U1"; a] -> EUse1 (expr a)
  | Lx [A "U2"; a; b] -> EUse2 (expr a, expr b)
  | Lx [A "D"; a; A n] -> EDerive (expr a, ni n)
  | Lx [A "G"; a; A k] -> EElem (expr a, nat k)
  | Lx [A "C"; a; b] -> EConcat (expr a, expr b)
  | Lx (A "B" :: A n :: cs) -> EBuild (ni n, List.fold_right (fun c r -> XCons (expr c, r)) cs XNil)
  | Lx (A "F" :: A f :: al) -> ECall (nat f, args al)
  | Lx (A "X" :: n :: al) -> EExt (args al, optn n)
  | Lx [A "A"; a; b] -> EAnd (expr a, expr b)
  | Lx [A "I"; c; a; b] -> EFalls (expr c, expr a, expr b)
  | _ -> failwith "expr"
and args al = List.fold_right (fun a r -> match a with
    | Lx [A "v"; e] -> AVal (expr e, r)
    | Lx [A "r"; A x] -> ARef (nat x, r)
    | _ -> failwith "arg") al ANil
let rec stmt = function
  | A "K" -> SSkip
  | Lx (A "S" :: ss) -> (match ss with [] -> SSkip | _ -> let rec go = function [s] -> stmt s | s :: r -> SSeq (stmt s, go r) | [] -> SSkip in go ss)
  | Lx [A "d"; A x; e] -> SDecl (nat x, expr e)
  | Lx [A "="; A x; e] -> SAssign (nat x, expr e)
  | Lx [A "p"; A x; A k; e] -> SAssignPart (nat x, nat k, expr e)
  | Lx [A "e"; e] -> SExpr (expr e)
  | Lx [A "b"; s] -> SBlock (stmt s)
  | Lx [A "i"; c; a; b] -> SIf (expr c, stmt a, stmt b)
  | Lx [A "w"; c; b] -> SWhile (expr c, stmt b)
  | Lx [A "o"; b; c] -> SDoWhile (stmt b, expr c)
  | Lx [A "r"; c; A k; b] -> SRepeat (expr c, nat k, stmt b)
  | Lx [A "f"; fr; t; st; A dn; A k; b] -> SFor (expr fr, expr t, expr st, (dn = "1"), nat k, stmt b)
  | Lx [A "E"; A x; np; e; A k; b] -> SForEach (nat x, optn np, expr e, nat k, stmt b)
  | A "B" -> SBreak
  | A "N" -> SContinue
  | Lx [A "R"] -> SReturn None
  | Lx [A "R"; e] -> SReturn (Some (expr e))
  | _ -> failwith "stmt"
let fundef = function
  | Lx [A "fun"; A ret; Lx ps; body] ->
    { f_params = List.map (function
        | Lx [A x; A m; A np] -> ((nat x, (match m with "v" -> MVal | "r" -> MRef | "c" -> MConst | _ -> failwith "mode")), np = "1")
        | _ -> failwith "param") ps;
      f_ret = (ret = "1"); f_body = stmt body }
  | _ -> failwith "fundef"
let program = function
  | Lx [A "prog"; Lx fs; m] -> { p_funs = List.map fundef fs; p_main = stmt m }
  | _ -> failwith "prog"

let show_ledger l =
  String.concat " ; " (List.map (fun e -> Printf.sprintf "%d %d %d %d" (int_of_n e.e_ptr) (int_of_n e.e_old) (int_of_n e.e_new) (int_of_n e.e_res)) l)

let () =
  List.iter (fun line ->
    match split_ws line with
    | "L" :: toks -> print_endline (show_verdict (check_ledger (parse_ledger toks)))
    | "M" :: fuel :: orc :: rest ->
      (try
        let p = program (parse_sx (tokenize (String.concat " " rest))) in
        let oracle = if orc = "-" then [] else List.init (String.length orc) (fun i -> orc.[i] = '1') in
        (match compile p with
         | None -> print_endline "N"
         | Some _ ->
           let ok = if program_ok p then "S1 " else "S0 " in   (* verdict of the proved static discipline *)
           (match run_program (nat fuel) oracle p with
            | None -> print_endline (ok ^ "F")
            | Some l -> print_endline (ok ^ show_verdict (check_ledger l) ^ " # " ^ show_ledger l)))
      with Failure m -> print_endline ("? " ^ m))
    | _ -> print_endline "?") (read_lines stdin)
