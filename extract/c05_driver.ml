(* C05 model driver. One case per line, one answer line per case.
     L p o n r ; p o n r ; ...     judge a real ledger with the extracted, proved checker
         -> "B" balanced | "X <index> <reason> <p> <o> <n> <r>" first offending event | "K <p>:<size> ..." leaked blocks *)
open C05_model
open Common

let rec pos_of_int i = if i = 1 then XH else if i land 1 = 0 then XO (pos_of_int (i lsr 1)) else XI (pos_of_int (i lsr 1))
let n_of_int i = if i = 0 then N0 else Npos (pos_of_int i)
let rec int_of_pos = function XH -> 1 | XO p -> 2 * int_of_pos p | XI p -> 2 * int_of_pos p + 1
let int_of_n = function N0 -> 0 | Npos p -> int_of_pos p
let ni s = n_of_int (int_of_string s)

let reason_name = function RNullSized -> "null-with-size" | RNotLive -> "not-live" | RWrongSize -> "wrong-size" | RBadResult -> "bad-result"

let parse_ledger toks =
  (* toks: p o n r ; p o n r ; ... *)
  let rec go acc = function
    | p :: o :: n :: r :: rest ->
      let ev = { e_ptr = ni p; e_old = ni o; e_new = ni n; e_res = ni r } in
      (match rest with ";" :: rest' -> go (ev :: acc) rest' | _ -> go (ev :: acc) rest)
    | _ -> List.rev acc in
  go [] toks

let () =
  List.iter (fun line ->
    match split_ws line with
    | "L" :: toks ->
      (match check_ledger (parse_ledger toks) with
       | Balanced -> print_endline "B"
       | BadEvent (i, e, why) ->
         Printf.printf "X %d %s %d %d %d %d\n" (int_of_n i) (reason_name why) (int_of_n e.e_ptr) (int_of_n e.e_old) (int_of_n e.e_new) (int_of_n e.e_res)
       | Leaked bl ->
         print_endline (String.concat " " ("K" :: List.map (fun (p, n) -> Printf.sprintf "%d:%d" (int_of_n p) (int_of_n n)) bl)))
    | _ -> print_endline "?") (read_lines stdin)
