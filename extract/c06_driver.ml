(* C06 model driver: one query per line, one answer per line. Lists are [1..len] so that answers are
   positions; E = Laufzeitfehler. *)
open C06_model
open Common

let rec pos_of_i64 (i : int64) : positive =
  if i = 1L then XH
  else if Int64.logand i 1L = 0L then XO (pos_of_i64 (Int64.shift_right_logical i 1))
  else XI (pos_of_i64 (Int64.shift_right_logical i 1))
let z_of_string (s : string) : z =
  let v = Int64.of_string s in
  if v = 0L then Z0
  else if v > 0L then Zpos (pos_of_i64 v)
  else if v = Int64.min_int then Zneg (pos_of_i64 v) (* bit pattern 2^63 read as unsigned *)
  else Zneg (pos_of_i64 (Int64.neg v))
let rec i64_of_pos = function XH -> 1L | XO p -> Int64.mul 2L (i64_of_pos p) | XI p -> Int64.add 1L (Int64.mul 2L (i64_of_pos p))
let string_of_z = function Z0 -> "0" | Zpos p -> Int64.to_string (i64_of_pos p) | Zneg p -> "-" ^ Int64.to_string (i64_of_pos p)
let zi i = z_of_string (string_of_int i)
let positions n = List.init n (fun k -> zi (k + 1))
let show_list l = if l = [] then "-" else String.concat " " (List.map string_of_z l)
let show_slice = function SliceError -> "E" | SliceOk l -> show_list l

let () =
  List.iter (fun line ->
    match split_ws line with
    | ["LI"; len; i] -> (match list_index (positions (int_of_string len)) (z_of_string i) with None -> print_endline "E" | Some p -> print_endline (string_of_z p))
    | ["LS"; len; i] -> (match list_store (positions (int_of_string len)) (z_of_string i) Z0 with None -> print_endline "E" | Some l -> print_endline (show_list l))
    | ["SL"; len; a; b] -> print_endline (show_slice (list_slice (positions (int_of_string len)) (z_of_string a) (z_of_string b)))
    | ["SF"; len; a] -> print_endline (show_slice (list_slice_from (positions (int_of_string len)) (z_of_string a)))
    | ["ST"; len; b] -> print_endline (show_slice (list_slice_to (positions (int_of_string len)) (z_of_string b)))
    | ["TI"; cap; len; i] -> (match text_index (z_of_string cap) (positions (int_of_string len)) (z_of_string i) with None -> print_endline "E" | Some p -> print_endline (string_of_z p))
    | ["TR"; cap; len; i] -> (match text_replace (z_of_string cap) (positions (int_of_string len)) (z_of_string i) Z0 with None -> print_endline "E" | Some l -> print_endline (show_list l))
    | ["TS"; len; a; b] -> print_endline (show_slice (text_slice (positions (int_of_string len)) (z_of_string a) (z_of_string b)))
    | ["AC"; h; t] -> (match any_cast (z_of_string h) (z_of_string t) () with None -> print_endline "E" | Some () -> print_endline "ok")
    | _ -> print_endline "?") (read_lines stdin)
