(* Runs the extracted C07 model (coq/Diag/Flags.v, Render.v).
   Input lines:
     F <cfg> <event> ...           one frontend trace under configuration <cfg> = three bits
                                   (inst_restores, scan_counts, nolink_checks); 000 = pinned, 111 = repaired; events:
         err:<s|p|r|c>:<w|e>:<code>  dir:<s|p|r|c>:<w|e>:<code>  bad sync sb se rr qb qe ab ae cd cr
         cw:<code>  ib:<mod>  ie:<0|1>  mb:<mod>  fin
       -> "F rejected <index>"  or
          "F done=<0|1> faulty=<m>:<0|1>,.. delivered=<w|e>:<mod>:<code>;.. stale=<b> rootscan=<b> out=<lm=1,cg=1><lm=1,cg=0><lm=0,cg=1><lm=0,cg=0>"
          (out: O object, R refused, C codegen failed)
     G <L> <C> <len,len,..> <len:slack,..>   render grid: for every (sl,sc,el,ec) in [0..L]x[0..C]x[0..L]x[0..C]
       -> "G <bitstring>"  (1 = renderer indexes safely)
     H <file> <errfile> <len,..> <len:slack,..> <sl> <sc> <el> <ec>   the handler chain: handler owning <file>
       (text = the lens), diagnostic naming <errfile> (paths already cleaned)  -> "H <0|1> <shown excerpt lines>"
     R <same_file 0|1> <len,len,..> <len:slack,..> <sl> <sc> <el> <ec>   one range (decimal, up to 2^64-1)
       -> "R <0|1> <excerpt_lines>" *)
open C07_model
open Common

let rec pos_of_int64 (i : int64) : positive =
  if Int64.equal i 1L then XH
  else
    let rest = pos_of_int64 (Int64.shift_right_logical i 1) in
    if Int64.equal (Int64.logand i 1L) 0L then XO rest else XI rest
let n_of_int64 i = if Int64.equal i 0L then N0 else Npos (pos_of_int64 i)
let n_of_string s = n_of_int64 (Int64.of_string ("0u" ^ s))
let n_of_int i = n_of_int64 (Int64.of_int i)
let rec int_of_pos = function XH -> 1 | XO p -> 2 * int_of_pos p | XI p -> 2 * int_of_pos p + 1
let int_of_n = function N0 -> 0 | Npos p -> int_of_pos p
let rec nat_of_int i = if i <= 0 then O else S (nat_of_int (i - 1))
let rec int_of_nat = function O -> 0 | S n -> 1 + int_of_nat n

let origin_of = function "s" -> OScanner | "p" -> OParser | "r" -> OResolver | "c" -> OChecker | x -> failwith ("origin " ^ x)
let level_of = function "w" -> LWarn | "e" -> LError | x -> failwith ("level " ^ x)

let event_of tok =
  match String.split_on_char ':' tok with
  | ["err"; o; l; c] -> EErr (origin_of o, level_of l, n_of_string c)
  | ["dir"; o; l; c] -> EDirect (origin_of o, level_of l, n_of_string c)
  | ["bad"] -> EMarkBad | ["sync"] -> ESync
  | ["sb"] -> ESpecBegin | ["se"] -> ESpecEnd | ["rr"] -> EReraise
  | ["qb"] -> ESilentBegin | ["qe"] -> ESilentEnd
  | ["ab"] -> EArgBegin | ["ae"] -> EArgEnd
  | ["cd"] -> ECandDrop | ["cr"] -> ECandReplay | ["cw"; c] -> ECandWrap (n_of_string c)
  | ["ib"; d] -> EInstBegin (nat_of_int (int_of_string d))
  | ["ie"; k] -> EInstEnd (k = "1")
  | ["mb"; m] -> EImportBegin (nat_of_int (int_of_string m))
  | ["fin"] -> EFinish
  | _ -> failwith ("event " ^ tok)

let b2s b = if b then "1" else "0"
let out_char = function Object -> "O" | Refused -> "R" | CodegenFailed -> "C"

let flags cfgs toks =
  let cfg = { cfg_inst_restores = cfgs.[0] = '1'; cfg_scan_counts = cfgs.[1] = '1'; cfg_nolink_checks = cfgs.[2] = '1' } in
  let step = step cfg and compile = compile cfg in
  let evs = List.map event_of toks in
  (* step by step, to report the index of the first inadmissible event *)
  let rec go s i = function
    | [] -> Ok s
    | e :: r -> (match step s e with Some s1 -> go s1 (i + 1) r | None -> Error i) in
  match go init 0 evs with
  | Error i -> Printf.printf "F rejected %d\n" i
  | Ok s ->
    let g = s.s_g in
    let mods = List.sort compare (List.map int_of_nat g.g_seen) in
    let faulty = String.concat "," (List.map (fun m -> Printf.sprintf "%d:%s" m (b2s (g.g_faulty (nat_of_int m)))) mods) in
    let dl = String.concat ";" (List.map (fun d ->
        Printf.sprintf "%s:%d:%d" (match d.d_lvl with LWarn -> "w" | LError -> "e") (int_of_nat d.d_mod) (int_of_n d.d_code))
        (delivered s)) in
    Printf.printf "F done=%s faulty=%s delivered=%s stale=%s rootscan=%s out=%s%s%s%s\n"
      (b2s (s.s_stack = [])) faulty dl (b2s g.g_stale) (b2s g.g_rootscan)
      (out_char (compile true true s)) (out_char (compile true false s))
      (out_char (compile false true s)) (out_char (compile false false s))

let parse_lens s = if s = "-" then [] else List.map (fun x -> n_of_string x) (String.split_on_char ',' s)
let parse_slack s =
  let tbl = Hashtbl.create 16 in
  if s <> "-" then
    List.iter (fun kv -> match String.split_on_char ':' kv with
        | [k; v] -> Hashtbl.replace tbl (int_of_string k) (n_of_string v)
        | _ -> ()) (String.split_on_char ',' s);
  fun len -> (match Hashtbl.find_opt tbl (int_of_n len) with Some v -> v | None -> N0)

let () =
  List.iter (fun line ->
    match split_ws line with
    | "F" :: cfgs :: toks -> flags cfgs toks
    | ["G"; l; c; lens; slack] ->
      let l = int_of_string l and c = int_of_string c in
      let lines = parse_lens lens and sl = parse_slack slack in
      let b = Buffer.create 4096 in
      for a = 0 to l do for bb = 0 to c do for cc = 0 to l do for d = 0 to c do
        let r = { sl = n_of_int a; sc = n_of_int bb; el = n_of_int cc; ec = n_of_int d } in
        Buffer.add_char b (if render_ok_fast sl true lines r then '1' else '0')
      done done done done;
      print_string "G "; print_endline (Buffer.contents b)
    | ["R"; sf; lens; slack; a; bb; cc; d] ->
      let r = { sl = n_of_string a; sc = n_of_string bb; el = n_of_string cc; ec = n_of_string d } in
      Printf.printf "R %s %d\n" (b2s (render_ok_fast (parse_slack slack) (sf = "1") (parse_lens lens) r))
        (match excerpt_lines r with N0 -> 0 | Npos _ as x -> (try int_of_n x with _ -> -1))
    | ["H"; file; errfile; lens; slack; a; bb; cc; d] ->
      (* handler created for <file> (its text = lens), diagnostic naming <errfile>; paths arrive cleaned *)
      let r = { sl = n_of_string a; sc = n_of_string bb; el = n_of_string cc; ec = n_of_string d } in
      let lines = parse_lens lens in
      let ok = handler_ok String.equal (fun p -> p) (fun _ -> lines) (parse_slack slack) file errfile r in
      Printf.printf "H %s %d\n" (b2s ok)
        (match shown_lines String.equal (fun p -> p) file errfile r with N0 -> 0 | Npos _ as x -> (try int_of_n x with _ -> -1))
    | _ -> ()) (read_lines stdin)
