(* Runs the extracted model coq/Lower/Opt2.v on programs serialised by checks/c08gen.py:to_model.
   One program per input line (prefix notation, see to_model); one output line per program:
     <copy-result> ; <elide-result> ; <analysis>
   result = "OK" {" i:"z | " s:"z","z...} | "ER" class ;  analysis = one 0/1 string per function *)
open C08_model
open Common

let rec nat_of_int i = if i <= 0 then O else S (nat_of_int (i - 1))
let rec int_of_nat = function O -> 0 | S n -> 1 + int_of_nat n
let rec pos_of_int i = if i = 1 then XH else if i land 1 = 0 then XO (pos_of_int (i / 2)) else XI (pos_of_int (i / 2))
let z_of_int i = if i = 0 then Z0 else if i > 0 then Zpos (pos_of_int i) else Zneg (pos_of_int (-i))
let rec int_of_pos = function XH -> 1 | XO p -> 2 * int_of_pos p | XI p -> 2 * int_of_pos p + 1
let int_of_z = function Z0 -> 0 | Zpos p -> int_of_pos p | Zneg p -> - (int_of_pos p)

let toks = ref [||] and pos = ref 0
let next () = let t = !toks.(!pos) in incr pos; t
let next_int () = int_of_string (next ())
let rec times n f = if n <= 0 then [] else let x = f () in x :: times (n - 1) f

let rec expr () =
  match next () with
  | "i" -> EInt (z_of_int (next_int ()))
  | "v" -> EVar (nat_of_int (next_int ()))
  | "l" -> let n = next_int () in ELit (times n (fun () -> z_of_int (next_int ())))
  | "c" -> let a = expr () in let b = expr () in ECat (a, b)
  | "x" -> let a = expr () in let b = expr () in EIdx (a, b)
  | "n" -> ELen (expr ())
  | t -> failwith ("expr " ^ t)

let arg () =
  match next () with
  | "V" -> AVal (expr ())
  | "X" -> ARef (nat_of_int (next_int ()))
  | t -> failwith ("arg " ^ t)

let rec stmts () = let n = next_int () in times n stmt
and stmt () =
  match next () with
  | "D" -> let x = next_int () in SDecl (nat_of_int x, expr ())
  | "A" -> let x = next_int () in SAssign (nat_of_int x, expr ())
  | "I" -> let x = next_int () in let i = expr () in let v = expr () in SAssignIdx (nat_of_int x, i, v)
  | "W" -> SPrint (expr ())
  | "C" ->
    let dst = if next_int () = 1 then Some (nat_of_int (next_int ())) else None in
    let f = next_int () in
    let n = next_int () in
    SCall (dst, nat_of_int f, times n arg)
  | "Y" -> let c = expr () in let th = stmts () in let el = stmts () in SIf (c, th, el)
  | "R" -> let x = next_int () in let e = expr () in let b = stmts () in SFor (nat_of_int x, e, b)
  | t -> failwith ("stmt " ^ t)

let fundecl () =
  (match next () with "F" -> () | t -> failwith ("fun " ^ t));
  let np = next_int () in
  let ps = times np (fun () -> let x = next_int () in let r = next_int () in { pname = nat_of_int x; pref = (r = 1) }) in
  let body = stmts () in
  let ret = if next_int () = 1 then Some (expr ()) else None in
  { fparams = ps; fbody = body; fret = ret; fnometa = false }

let program () =
  (match next () with "P" -> () | t -> failwith ("prog " ^ t));
  let ng = next_int () in
  let gs = times ng (fun () -> let x = next_int () in (nat_of_int x, expr ())) in
  let nf = next_int () in
  let fs = times nf fundecl in
  let m = stmts () in
  { pglobals = gs; pfuns = fs; pmain = m }

let show_err = function EStuck -> "stuck" | EUaf -> "uaf" | EBounds -> "bounds" | EFuel -> "fuel"
let show = function
  | Er e -> "ER " ^ show_err e
  | Ok outs ->
    String.concat " " ("OK" :: List.map (function
      | OInt z -> "i:" ^ string_of_int (int_of_z z)
      | OSeq c -> "s:" ^ String.concat "," (List.map (fun z -> string_of_int (int_of_z z)) c)) outs)

let () =
  let fuel = nat_of_int 3000 in
  List.iter (fun line ->
    if String.trim line <> "" then begin
      toks := Array.of_list (split_ws line); pos := 0;
      match program () with
      | p ->
        let m = analyse p.pfuns in
        Printf.printf "%s ; %s ; %s\n" (show (run_copy fuel p)) (show (run_elide fuel p))
          (String.concat " " (List.map (fun l -> "m" ^ String.concat "" (List.map (fun b -> if b then "1" else "0") l)) m))
      | exception e -> Printf.printf "PARSE %s\n" (Printexc.to_string e)
    end) (read_lines stdin)
