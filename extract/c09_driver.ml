(* Runs the extracted C09 model (coq/Alias/Select.v, Overload.v) on a line-based case file.
   Numbers decimal, names/literals hex. Types: B<id> | L(<ty>) | G<name-id> | I<kombination-id>(<ty>).

   POP                                          new alias population (fresh vocabulary and trie)
   T <tid> <tt> <hexlit|->                      plain token
   P <tid> <hexname> <ref> <list> <rank> <tyid> placeholder token (key abstraction as in C20)
   A <aid> <fn> <neg> <gen> ; <tid>.. ; <hexname>:<ty>:<ref> ..      declare an alias (in program order)
   NB <aid> <gen-name-id> <base id>..          inst_ok of this alias: the type parameter must be bound to one of these base types
   C <cid> <start> <buchstabe-ty> ; <tid>.. ; <pos>:<valty|->:<refty|->:<textidx> .. ; <aid>..
        stream ; per argument start: type when parsed as expression / as assignable ; aliases whose instantiation fails
     -> R <cid> <SEL|FB|GERR|NONE> <aid|-> <neg> <end|-> ; <hexname>=<ref>:<from>:<to> .. ; <aid>:<ok> .. (candidates, trie order) ; <aid>.. (maximal type-matching set) ; <aid>.. (maximal candidates)
   M <hexlit>                                   -> M <hex>:<neg> ..  |  M !
   OT <is_cast>                                 new overload table
   OD <id> <gen> <ret-ty> ; <hexname>:<ty>:<ref> ..   -> OI <id> <0|1> ; <id>.. (table order)
   OF <cid> <target-ty|-> ; <ty>:<assignable> .. ; <struct base id>.. ; <failing inst id>..
     -> OR <cid> OV <id> ; <hexname>=<operand index> ..  |  OR <cid> BUILTIN  |  OR <cid> PANIC *)
open C09_model
open Common

let rec pos_of_int i = if i = 1 then XH else if i land 1 = 0 then XO (pos_of_int (i / 2)) else XI (pos_of_int (i / 2))
let n_of_int i = if i = 0 then N0 else Npos (pos_of_int i)
let rec int_of_pos = function XH -> 1 | XO p -> 2 * int_of_pos p | XI p -> 2 * int_of_pos p + 1
let int_of_n = function N0 -> 0 | Npos p -> int_of_pos p
let rec nat_of_int i = if i <= 0 then O else S (nat_of_int (i - 1))
let rec int_of_nat = function O -> 0 | S n -> 1 + int_of_nat n

let hex_encode l = String.concat "" (List.map (fun x -> Printf.sprintf "%02x" (int_of_n x)) l)
let hexn s = if s = "-" then [] else List.map n_of_int (hex_decode s)

let rec parse_ty s =
  let n = String.length s in
  if n = 0 then failwith "empty type"
  else match s.[0] with
    | 'B' -> TBase (n_of_int (int_of_string (String.sub s 1 (n - 1))))
    | 'G' -> TGen (n_of_int (int_of_string (String.sub s 1 (n - 1))))
    | 'L' -> TList (parse_ty (String.sub s 2 (n - 3)))
    | 'I' -> let k = String.index s '(' in
             TInst (n_of_int (int_of_string (String.sub s 1 (k - 1))), parse_ty (String.sub s (k + 1) (n - k - 2)))
    | _ -> failwith ("bad type " ^ s)

let split_semi line = List.map split_ws (String.split_on_char ';' line)

let vocab : (int, tok) Hashtbl.t = Hashtbl.create 64
let aliases : alias list ref = ref []
let trie = ref (declare_all [])

let parse_param f =
  match String.split_on_char ':' f with
  | [nm; t; r] -> { p_name = hexn nm; p_ty = parse_ty t; p_ref = (r = "1") }
  | _ -> failwith ("bad param " ^ f)

(* NB <aid> <gen-name-id> <base id>..: the body of this generic function only instantiates when the type parameter is one of these base types *)
let numeric : (int, n * int list) Hashtbl.t = Hashtbl.create 8

let otable : odecl list ref = ref []
let ocast = ref false

let show_binds b =
  String.concat " " (List.map (fun (nm, ((r, f), t)) -> Printf.sprintf "%s=%d:%d:%d" (hex_encode nm) (if r then 1 else 0) (int_of_nat f) (int_of_nat t)) b)

let () =
  let lines = read_lines stdin in
  List.iter (fun line ->
    match split_semi line with
    | ["POP"] :: _ -> Hashtbl.reset vocab; Hashtbl.reset numeric; aliases := []; trie := declare_all []
    | ("NB" :: aid :: g :: bs) :: _ -> Hashtbl.replace numeric (int_of_string aid) (n_of_int (int_of_string g), List.map int_of_string bs)
    | ["T"; id; tt; l] :: _ ->
      Hashtbl.replace vocab (int_of_string id) { tt = n_of_int (int_of_string tt); lit = hexn l; ainfo = None }
    | ["P"; id; nm; r; l; rank; tid] :: _ ->
      Hashtbl.replace vocab (int_of_string id)
        { tt = tt_ALIAS_PARAMETER; lit = hexn nm;
          ainfo = Some { t_ref = (r = "1"); t_list = (l = "1"); t_name = n_of_int (int_of_string rank); t_id = n_of_int (int_of_string tid) } }
    | ["A"; aid; fn; neg; gen] :: toks :: rest ->
      let ps = match rest with p :: _ -> List.map parse_param p | [] -> [] in
      let a = { a_id = n_of_int (int_of_string aid); a_fn = n_of_int (int_of_string fn);
                a_toks = List.map (fun t -> Hashtbl.find vocab (int_of_string t)) toks;
                a_params = ps; a_neg = (neg = "1") } in
      if a_generic a <> (gen = "1") then Printf.printf "E generic flag of alias %s differs from its parameter types\n" aid;
      aliases := a :: !aliases;
      trie := declare !trie a
    | ["C"; cid; start; bty] :: stream :: rest ->
      let argf, failf = match rest with [a] -> a, [] | a :: f :: _ -> a, f | [] -> [], [] in
      let s = List.map (fun t -> Hashtbl.find vocab (int_of_string t)) stream in
      let tab : (int, ty option * ty option * bool) Hashtbl.t = Hashtbl.create 8 in
      List.iter (fun f ->
        match String.split_on_char ':' f with
        | [p; v; r; x] ->
          let o t = if t = "-" then None else Some (parse_ty t) in
          Hashtbl.replace tab (int_of_string p) (o v, o r, x = "1")
        | _ -> failwith ("bad arg " ^ f)) argf;
      let argty isref c =
        match Hashtbl.find_opt tab (int_of_nat c) with
        | Some (v, r, _) -> if isref then r else v
        | None -> None in
      let text_index c = match Hashtbl.find_opt tab (int_of_nat c) with Some (_, _, x) -> x | None -> false in
      let fails = List.map int_of_string failf in
      let rec genv_find e g = match e with [] -> None | (m, t) :: r -> if int_of_n m = int_of_n g then Some t else genv_find r g in
      let inst_ok a e =
        not (List.mem (int_of_n a.a_id) fails) &&
        (match Hashtbl.find_opt numeric (int_of_n a.a_id) with
         | None -> true
         | Some (g, bs) -> (match genv_find e g with Some (TBase b) -> List.mem (int_of_n b) bs | _ -> false)) in
      let b = parse_ty bty in
      let st = nat_of_int (int_of_string start) in
      let cands = candidates s !trie st in
      let ok a = check_ok s argty text_index inst_ok b a st in
      let maxset = List.filter (fun a -> ok a && not (List.exists (fun c -> ok c && alias_less c a) cands)) cands in
      let cand_s = String.concat " " (List.map (fun a -> Printf.sprintf "%d:%d" (int_of_n a.a_id) (if ok a then 1 else 0)) cands) in
      let topset = List.filter (fun a -> not (List.exists (fun c -> alias_less c a) cands)) cands in
      let max_s = String.concat " " (List.map (fun a -> string_of_int (int_of_n a.a_id)) maxset) ^ " ; " ^
                  String.concat " " (List.map (fun a -> string_of_int (int_of_n a.a_id)) topset) in
      let fin a = match end_of s a st with Some e -> string_of_int (int_of_nat e) | None -> "-" in
      (match select s argty text_index inst_ok b !trie st with
       | Selected (a, bs, _) ->
         Printf.printf "R %s SEL %d %d %s ; %s ; %s ; %s\n" cid (int_of_n a.a_id) (if a.a_neg then 1 else 0) (fin a) (show_binds bs) cand_s max_s
       | Fallback (a, bs) ->
         Printf.printf "R %s FB %d %d %s ; %s ; %s ; %s\n" cid (int_of_n a.a_id) (if a.a_neg then 1 else 0) (fin a) (show_binds bs) cand_s max_s
       | GenericError a ->
         Printf.printf "R %s GERR %d 0 - ; ; %s ; %s\n" cid (int_of_n a.a_id) cand_s max_s
       | NoAlias -> Printf.printf "R %s NONE - 0 - ; ; ; ; \n" cid)
    | ["M"; h] :: _ ->
      (match expand_marker (hexn h) with
       | None -> print_endline "M !"
       | Some l -> print_endline (String.concat " " ("M" :: List.map (fun (x, n) -> Printf.sprintf "%s:%d" (hex_encode x) (if n then 1 else 0)) l)))
    | ["OT"; c] :: _ -> otable := []; ocast := (c = "1")
    | ["OD"; id; gen; ret] :: rest ->
      let ps = match rest with p :: _ -> List.map parse_param p | [] -> [] in
      let d = { od_id = n_of_int (int_of_string id); od_params = ps; od_generic = (gen = "1"); od_ret = parse_ty ret } in
      let (t, ok) = insert_overload !ocast !otable d in
      otable := t;
      Printf.printf "OI %s %d ; %s\n" id (if ok then 1 else 0) (String.concat " " (List.map (fun d -> string_of_int (int_of_n d.od_id)) t))
    | ["OF"; cid; target] :: rest ->
      let opsf, structf, failf = match rest with
        | [a] -> a, [], [] | [a; b] -> a, b, [] | a :: b :: c :: _ -> a, b, c | [] -> [], [], [] in
      let ops = List.map (fun f -> match String.split_on_char ':' f with
          | [t; a] -> (parse_ty t, a = "1") | _ -> failwith ("bad operand " ^ f)) opsf in
      let structs = List.map int_of_string structf in
      let is_struct = function TBase i -> List.mem (int_of_n i) structs | TInst _ -> true | _ -> false in
      let fails = List.map int_of_string failf in
      let oinst_ok d _ = not (List.mem (int_of_n d.od_id) fails) in
      let tg = if target = "-" then None else Some (parse_ty target) in
      (match find_overload is_struct oinst_ok !otable ops tg with
       | Overloaded (d, _, args) ->
         Printf.printf "OR %s OV %d ; %s\n" cid (int_of_n d.od_id)
           (String.concat " " (List.map (fun (nm, i) -> Printf.sprintf "%s=%d" (hex_encode nm) (int_of_nat i)) args))
       | Builtin -> Printf.printf "OR %s BUILTIN\n" cid
       | OPanic -> Printf.printf "OR %s PANIC\n" cid)
    | _ -> ()) lines
