(* Runs the extracted C10 model (loader, visibility, init order, run of the emitted code) on the
   module graphs the check generates.  Input (stdin), one case after the other:
     CASE <id>
     ROOT <path>
     DIR <dir> N <p>* R <p>*          directory listing: direct .ddp children / all descendants
     FILE <path>
       I <line> <target> W | N <name>* | D <0|1>
       D <line> <name> <f|v|c|t> <0|1>            declaration without body
       F <line> <name> <0|1>  ... E               function with body
       U <line> <name> <f|v|c|t>
       M <tag>
       B R <n> | B I <0|1>    ... E
     END
     H <hex>                          (separately: flattened module name of a path string)
   Output per case: "<id> oof=<0|1> diags=<file:line:class,..> log=<p,..> out=<none|ev;ev;..>" *)
open C10_model
open Common

let rec pos_of_int i = if i = 1 then XH else if i land 1 = 0 then XO (pos_of_int (i / 2)) else XI (pos_of_int (i / 2))
let n_of_int i = if i = 0 then N0 else Npos (pos_of_int i)
let rec int_of_pos = function XH -> 1 | XO p -> 2 * int_of_pos p | XI p -> 2 * int_of_pos p + 1
let int_of_n = function N0 -> 0 | Npos p -> int_of_pos p
let rec nat_of_int i = if i <= 0 then O else S (nat_of_int (i - 1))
let ni s = n_of_int (int_of_string s)

let kind_of = function "f" -> KFunc | "v" -> KVar | "c" -> KConst | _ -> KType
let class_name = function
  | DCircular -> "include" | DLoadFail -> "include" | DUndefined -> "undefined" | DDefined -> "defined"
  | DAlias -> "alias" | DOther -> "other"
let class_fine = function DCircular -> "circular" | DLoadFail -> "loadfail" | c -> class_name c

(* statement parser over a mutable line queue *)
let rec parse_stmts (q : string list ref) : stmt list =
  match !q with
  | [] -> []
  | l :: rest ->
    (match split_ws l with
     | ["E"] -> q := rest; []
     | "I" :: line :: tgt :: form ->
       q := rest;
       let f = match form with
         | "W" :: _ -> IWhole
         | "N" :: ns -> INamed (List.map ni ns)
         | "D" :: [r] -> IDir (r = "1")
         | _ -> IWhole in
       let s = SImport { i_line = ni line; i_target = ni tgt; i_form = f } in
       s :: parse_stmts q
     | ["D"; line; name; k; pub] ->
       q := rest;
       let s = SDecl (ni line, { d_name = ni name; d_kind = kind_of k; d_public = (pub = "1") }, []) in
       s :: parse_stmts q
     | ["F"; line; name; pub] ->
       q := rest;
       let body = parse_stmts q in
       let s = SDecl (ni line, { d_name = ni name; d_kind = KFunc; d_public = (pub = "1") }, body) in
       s :: parse_stmts q
     | ["U"; line; name; k] -> q := rest; let s = SUse (ni line, ni name, kind_of k) in s :: parse_stmts q
     | ["M"; t] -> q := rest; let s = SMark (ni t) in s :: parse_stmts q
     | ["B"; "R"; n] ->
       q := rest; let body = parse_stmts q in
       let s = SBlock (CRepeat (nat_of_int (int_of_string n)), body) in s :: parse_stmts q
     | ["B"; "I"; b] ->
       q := rest; let body = parse_stmts q in
       let s = SBlock (CIf (b = "1"), body) in s :: parse_stmts q
     | _ -> [])   (* FILE / DIR / END / CASE: end of this statement list, line left in the queue *)

let show_event = function
  | EInit q -> Printf.sprintf "init %d" (int_of_n q)
  | EInitVar (q, n) -> Printf.sprintf "ivar %d %d" (int_of_n q) (int_of_n n)
  | EMark (p, t) -> Printf.sprintf "mark %d %d" (int_of_n p) (int_of_n t)
  | EFn (q, n) -> Printf.sprintf "fn %d %d" (int_of_n q) (int_of_n n)
  | EVal (q, n, b) -> Printf.sprintf "val %d %d %d" (int_of_n q) (int_of_n n) (if b then 1 else 0)
  | EConst (q, n) -> Printf.sprintf "const %d %d" (int_of_n q) (int_of_n n)
  | EType (q, n) -> Printf.sprintf "type %d %d" (int_of_n q) (int_of_n n)

let run_case id root files dirs =
  let fs = { fs_files = List.rev files; fs_dirs = List.rev dirs } in
  let a = analyse fs root in
  let diags = String.concat "," (List.map (fun d ->
      Printf.sprintf "%d:%d:%s:%s" (int_of_n d.dg_file) (int_of_n d.dg_line) (class_name d.dg_class) (class_fine d.dg_class)) a.a_diags) in
  let log = String.concat "," (List.map (fun p -> string_of_int (int_of_n p)) a.a_log) in
  let out = match a.a_outcome with
    | None -> "none"
    | Some tr -> "run;" ^ String.concat ";" (List.map show_event tr) in
  Printf.printf "%s oof=%d diags=%s log=%s out=%s\n" id (if a.a_oof then 1 else 0) diags log out

let () =
  let q = ref (read_lines stdin) in
  let id = ref "" and root = ref N0 and files = ref [] and dirs = ref [] in
  let continue = ref true in
  while !continue do
    match !q with
    | [] -> continue := false
    | l :: rest ->
      q := rest;
      (match split_ws l with
       | ["CASE"; i] -> id := i; files := []; dirs := []
       | ["ROOT"; r] -> root := ni r
       | "DIR" :: d :: "N" :: more ->
         let rec split acc = function "R" :: t -> (List.rev acc, t) | x :: t -> split (x :: acc) t | [] -> (List.rev acc, []) in
         let (nr, rc) = split [] more in
         dirs := (ni d, (List.map ni nr, List.map ni rc)) :: !dirs
       | ["FILE"; p] -> let ss = parse_stmts q in files := (ni p, ss) :: !files
       | ["END"] -> run_case !id !root !files !dirs
       | ["H"; hex] ->
         let s = c10_hashable (List.map n_of_int (hex_decode hex)) in
         print_endline ("H " ^ String.concat "" (List.map (fun c -> Printf.sprintf "%02x" (int_of_n c)) s))
       | _ -> ())
  done
