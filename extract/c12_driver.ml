(* Runs the extracted C12 model (Rt/Str.v with the concrete codec of Rt/StrSpec.v) on the same case
   file as harness/c/rtdrive.c and prints the same result lines.  Additional outcomes that only the
   model can name: OOB, UNDEF, STUCK (the history ends).  State lines carry the code-point view
   computed by the Coq definition [cps]:   = cap hex ; c1,c2,..   (or "; !" when cps is None).
   With argument "spec" the specification [sstep] is run instead (lines "s c1,c2,.." for states). *)
open C12_model
open Common

let rec pos_of_int i = if i = 1 then XH else if i land 1 = 0 then XO (pos_of_int (i / 2)) else XI (pos_of_int (i / 2))
let z_of_int i = if i = 0 then Z0 else if i > 0 then Zpos (pos_of_int i) else Zneg (pos_of_int (-i))
let rec int_of_pos = function XH -> 1 | XO p -> 2 * int_of_pos p | XI p -> 2 * int_of_pos p + 1
let int_of_z = function Z0 -> 0 | Zpos p -> int_of_pos p | Zneg p -> - (int_of_pos p)
let rec nat_of_int i = if i <= 0 then O else S (nat_of_int (i - 1))

let hex_of l =
  if l = [] then "-" else
  String.concat "" (List.map (fun b -> let v = int_of_z b in if v < 0 || v > 255 then "??" else Printf.sprintf "%02x" v) l)
let ints l = String.concat "," (List.map (fun c -> string_of_int (int_of_z c)) l)
let unhex h = if h = "-" then [] else List.map z_of_int (hex_decode h)

let show_state (s : ddpstring) =
  Printf.printf "= %d %s ; %s\n" (int_of_z s.cap) (hex_of s.bytes)
    (match cps s with Some l -> ints l | None -> "!")

let parse_op fs =
  let n i = nat_of_int (int_of_string (List.nth fs i)) and z i = z_of_int (int_of_string (List.nth fs i)) in
  match List.hd fs with
  | "L" -> Some (OLit (n 1, unhex (List.nth fs 2)), Some (int_of_string (List.nth fs 1)))
  | "C" -> Some (OCopy (n 1, n 2), Some (int_of_string (List.nth fs 1)))
  | "K" -> Some (OConcat (n 1, n 2, n 3), Some (int_of_string (List.nth fs 1)))
  | "S" -> Some (OConcatSC (n 1, n 2, z 3), Some (int_of_string (List.nth fs 1)))
  | "P" -> Some (OConcatCS (n 1, z 2, n 3), Some (int_of_string (List.nth fs 1)))
  | "X" -> Some (OSlice (n 1, n 2, z 3, z 4), Some (int_of_string (List.nth fs 1)))
  | "T" -> Some (OCharToString (n 1, z 2), Some (int_of_string (List.nth fs 1)))
  | "R" -> Some (OReplace (n 1, z 2, z 3), Some (int_of_string (List.nth fs 1)))
  | "M" -> Some (OEmptyOwned (n 1), Some (int_of_string (List.nth fs 1)))
  | "I" -> Some (OIndex (n 1, z 2), None)
  | "N" -> Some (OLength (n 1), None)
  | "Q" -> Some (OEqual (n 1, n 2), None)
  | "F" -> Some (OIter (n 1), None)
  | "W" -> Some (OPrint (n 1), None)
  | _ -> None

let fail_name = function Err -> "E" | OOB -> "OOB" | Undef -> "UNDEF" | Stuck -> "STUCK" | Ok _ -> "?"

let () =
  let spec = Array.length Sys.argv > 1 && Sys.argv.(1) = "spec" in
  let st = ref init_state and sst = ref sinit and dead = ref true in
  let lines = read_lines stdin in
  List.iter (fun line ->
    match split_ws line with
    | [] -> ()
    | ["H"] -> print_endline "H"; st := init_state; sst := sinit; dead := false
    | ["U"; lo; hi] ->
      for c = int_of_string lo to int_of_string hi do
        let zc = z_of_int c in
        (match m_char_to_string zc with
         | Ok s ->
           let dec = (match s.bytes with
             | [] -> "-1 -"   (* utf8_string_to_char(NULL, ..) returns (size_t)-1 without touching *out *)
             | _ -> (match m_string_to_char s.bytes with
                 | Ok (n, out) -> Printf.sprintf "%d %s" (int_of_z n) (match out with Some v -> string_of_int (int_of_z v) | None -> "-")
                 | r -> fail_name r)) in
           Printf.printf "u %d %d %s %d %s %d\n" c (int_of_z s.cap) (hex_of s.bytes) (int_of_z (utf8_num_bytes_char zc)) dec
             (int_of_z (char_to_int (int_to_char zc)))
         | r -> Printf.printf "u %d %s\n" c (fail_name r))
      done
    | ["D"; lead; n; lo; hi] ->
      let lead = int_of_string lead and n = int_of_string n and lo = int_of_string lo and hi = int_of_string hi in
      let one bs =
        let blk = List.map z_of_int (bs @ [0]) in
        let dec = (match m_string_to_char blk with
          | Ok (k, out) -> Printf.sprintf "%d %s" (int_of_z k) (match out with Some v -> string_of_int (int_of_z v) | None -> "-")
          | r -> fail_name r) in
        let sl = (match utf8_strlen blk with Ok v -> string_of_int (int_of_z v) | r -> fail_name r) in
        Printf.printf "d %s %s %s %d\n" (hex_of (List.map z_of_int bs)) dec sl (int_of_z (utf8_indicated_num_bytes (z_of_int (List.hd bs)))) in
      let rec go k acc = if k = n then one (List.rev acc) else for b = lo to hi do go (k + 1) (b :: acc) done in
      go 1 [lead]
    | ["V"; h] ->
      let bs = unhex h in
      let blk = bs @ [Z0] in
      let dec = (match m_string_to_char blk with
        | Ok (k, out) -> Printf.sprintf "%d %s" (int_of_z k) (match out with Some v -> string_of_int (int_of_z v) | None -> "-")
        | r -> fail_name r) in
      let sl = (match utf8_strlen blk with Ok v -> string_of_int (int_of_z v) | r -> fail_name r) in
      Printf.printf "d %s %s %s %d\n" (hex_of bs) dec sl (int_of_z (utf8_indicated_num_bytes (List.hd blk)))
    | ["Z"; v] -> Printf.printf "z %d\n" (int_of_z (char_to_int (int_to_char (z_of_int (int_of_string v)))))
    | fs when not !dead ->
      (match parse_op fs with
       | None -> ()
       | Some (o, target) ->
         if spec then begin
           if not (in_text o) then (print_endline "NOTTEXT"; dead := true) else
           match sstep !sst o with
           | Ok (st', v) ->
             sst := st';
             (match v, target with
              | VNone, Some r -> Printf.printf "s %s\n" (ints (List.nth st' r))
              | VInt z, _ -> Printf.printf "i %d\n" (int_of_z z)
              | VBool b, _ -> Printf.printf "b %d\n" (if b then 1 else 0)
              | VChars l, _ -> (match o with OPrint _ -> Printf.printf "w %s\n" (hex_of l) | _ -> Printf.printf "l%s%s\n" (if l = [] then "" else " ") (ints l))
              | _ -> ())
           | r -> print_endline (fail_name r); dead := true
         end else
         match m_step !st o with
         | Ok (st', v) ->
           st := st';
           (match v, target with
            | VNone, Some r -> show_state (List.nth st' r)
            | VInt z, _ -> Printf.printf "i %d\n" (int_of_z z)
            | VBool b, _ -> Printf.printf "b %d\n" (if b then 1 else 0)
            | VChars l, _ -> (match o with OPrint _ -> Printf.printf "w %s\n" (hex_of l) | _ -> Printf.printf "l%s%s\n" (if l = [] then "" else " ") (ints l))
            | _ -> ())
         | r -> print_endline (fail_name r); dead := true)
    | _ -> ()) lines
