(* Runs the extracted C13 model (UTF-8 gate + decode + scanner model) on the case file scanx consumes:
     <mode N|S|A> <line0> <col0> <indent0> <hex bytes>
   and prints the same observable lines: ERR | OK type,literalhex,indent,sl,sc,el,ec|...
   (Literal of an ILLEGAL token, a message text in the Go code, is printed as "-"; FUEL = out of fuel). *)
open C13_model
open Common

let rec pos_of_int i = if i = 1 then XH else if i land 1 = 0 then XO (pos_of_int (i / 2)) else XI (pos_of_int (i / 2))
let n_of_int i = if i = 0 then N0 else Npos (pos_of_int i)
let rec int_of_pos = function XH -> 1 | XO p -> 2 * int_of_pos p | XI p -> 2 * int_of_pos p + 1
let int_of_n = function N0 -> 0 | Npos p -> int_of_pos p

let hex_of l =
  let b = Buffer.create 16 in
  List.iter (fun x -> Buffer.add_string b (Printf.sprintf "%02x" (int_of_n x))) l;
  Buffer.contents b

let illegal = int_of_n tt_ILLEGAL

let () =
  let out = Buffer.create (1 lsl 16) in
  (try
    while true do
      let line = input_line stdin in
      (match split_ws line with
       | m :: l0 :: c0 :: i0 :: rest ->
         let bs = match rest with [h] -> List.map n_of_int (hex_decode h) | _ -> [] in
         let md = if m = "A" then Alias else Normal in
         let base x = if m = "A" then n_of_int (int_of_string x) else n_of_int 0 in
         let (l, c, i) = if m = "A" then (base l0, base c0, base i0) else (n_of_int 1, n_of_int 1, n_of_int 0) in
         (match scan_bytes md l c i bs with
          | Refused -> Buffer.add_string out "ERR\n"
          | OutOfFuel -> Buffer.add_string out "FUEL\n"
          | Toks ts ->
            Buffer.add_string out "OK ";
            List.iteri (fun k t ->
              if k > 0 then Buffer.add_char out '|';
              let ty = int_of_n t.ty in
              Buffer.add_string out (Printf.sprintf "%d,%s,%d,%d,%d,%d,%d" ty
                (if ty = illegal then "-" else hex_of (lit_bytes t)) (int_of_n t.tindent)
                (int_of_n t.sl) (int_of_n t.sc) (int_of_n t.el) (int_of_n t.ec))) ts;
            Buffer.add_char out '\n')
       | _ -> ());
      if Buffer.length out > 60000 then (print_string (Buffer.contents out); Buffer.clear out)
    done
  with End_of_file -> ());
  print_string (Buffer.contents out)
