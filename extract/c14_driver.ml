(* Runs the extracted C14 model (coq/Types/Ty.v, Assign.v) on the same type population the Go harness
   (typex) consumes.  Input lines:
     T <idx> <spec>     register a type (spec grammar of harness/go/internal/tyspec; names are ignored)
     U                  one line per type: predicate bits and derived types
     E                  one line per type: rows of Equal and DeepEqual against every type
     P                  one line per type i: rows init_ok(t=i,v=j) assign_ok(t=i,v=j) cast_ok(lhs=i,target=j)
                        cast_assignable_ok(lhs=i,target=j)
     W                  well-formedness (ids identify objects) of the registered population *)
open C14_model
open Common

let rec pos_of_int i = if i = 1 then XH else if i land 1 = 0 then XO (pos_of_int (i / 2)) else XI (pos_of_int (i / 2))
let n_of_int i = if i = 0 then N0 else Npos (pos_of_int i)
let rec int_of_pos = function XH -> 1 | XO p -> 2 * int_of_pos p | XI p -> 2 * int_of_pos p + 1
let int_of_n = function N0 -> 0 | Npos p -> int_of_pos p

(* ---- spec parser ---- *)
let parse_spec (s : string) : ty =
  let n = String.length s in
  let pos = ref 0 in
  let peek () = if !pos < n then s.[!pos] else '\000' in
  let adv () = incr pos in
  let name_id () =
    (* <name>#<digits> *)
    while peek () <> '#' do adv () done;
    adv ();
    let st = !pos in
    while !pos < n && s.[!pos] >= '0' && s.[!pos] <= '9' do adv () done;
    n_of_int (int_of_string (String.sub s st (!pos - st))) in
  let rec go () =
    let c = peek () in
    adv ();
    match c with
    | 'Z' -> Prim PZahl | 'K' -> Prim PKommazahl | 'B' -> Prim PByte | 'W' -> Prim PWahrheitswert
    | 'C' -> Prim PBuchstabe | 'T' -> Prim PText | 'V' -> Any | 'N' -> Void
    | 'L' -> adv (); let e = go () in adv (); List e
    | 'S' -> Struct (name_id ())
    | 'G' -> TParam (name_id ())
    | 'A' -> let i = name_id () in adv (); let u = go () in adv (); Alias (i, u)
    | 'D' -> let i = name_id () in adv (); let u = go () in adv (); Def (i, u)
    | 'I' -> let i = name_id () in adv (); let u = go () in adv (); Inst (i, u)
    | _ -> failwith ("bad spec " ^ s) in
  let t = go () in
  if !pos <> n then failwith ("trailing input in spec " ^ s);
  t

let rec show = function
  | Prim PZahl -> "Z" | Prim PKommazahl -> "K" | Prim PByte -> "B" | Prim PWahrheitswert -> "W"
  | Prim PBuchstabe -> "C" | Prim PText -> "T" | Any -> "V" | Void -> "N"
  | List e -> "L(" ^ show e ^ ")"
  | Struct i -> Printf.sprintf "S#%d" (int_of_n i)
  | TParam i -> Printf.sprintf "G#%d" (int_of_n i)
  | Alias (i, u) -> Printf.sprintf "A#%d(%s)" (int_of_n i) (show u)
  | Def (i, u) -> Printf.sprintf "D#%d(%s)" (int_of_n i) (show u)
  | Inst (i, u) -> Printf.sprintf "I#%d(%s)" (int_of_n i) (show u)

let bit b = if b then '1' else '0'

let () =
  let types : (int, ty) Hashtbl.t = Hashtbl.create 1024 in
  let all () = let n = Hashtbl.length types in Array.init n (fun i -> Hashtbl.find types i) in
  let row ts f = let b = Bytes.create (Array.length ts) in Array.iteri (fun j t -> Bytes.set b j (bit (f t))) ts; Bytes.to_string b in
  List.iter (fun line ->
    match split_ws line with
    | ["T"; idx; spec] -> Hashtbl.replace types (int_of_string idx) (parse_spec spec)
    | ["U"] ->
      Array.iteri (fun i t ->
        let bits = String.init 9 (fun k -> bit (match k with
          | 0 -> is_primitive t | 1 -> is_numeric t | 2 -> is_list t | 3 -> is_void t | 4 -> is_struct t
          | 5 -> is_type_alias t | 6 -> is_type_def t | 7 -> is_any t | _ -> is_generic t)) in
        Printf.printf "U %d %s %s %s %s %s %s %s\n" i bits (show (underlying t)) (show (true_underlying t))
          (show (list_true_underlying t)) (show (list_elem t)) (show (nested_list_elem t))
          (match cast_type_def t with Some u -> show u | None -> "-")) (all ())
    | ["E"] ->
      let ts = all () in
      Array.iteri (fun i a -> Printf.printf "E %d %s %s\n" i (row ts (equal a)) (row ts (deep_equal a))) ts
    | ["P"] ->
      let ts = all () in
      Array.iteri (fun i a ->
        Printf.printf "P %d %s %s %s %s\n" i (row ts (init_ok a)) (row ts (assign_ok a)) (row ts (cast_ok a)) (row ts (cast_assignable_ok a))) ts
    | ["W"] -> Printf.printf "W %c\n" (bit (wf_types (Array.to_list (all ()))))
    | [] -> ()
    | _ -> failwith ("bad line " ^ line)) (read_lines stdin)
