(* Runs the extracted C14 model (coq/Types/Ty.v, Assign.v) on the same type population the Go harness
   (typex) consumes.  Input lines:
     T <idx> <spec>     register a type (spec grammar of harness/go/internal/tyspec; names are ignored)
     U                  one line per type: predicate bits and derived types
     E                  one line per type: rows of Equal and DeepEqual against every type
     P                  one line per type i: rows init_ok(t=i,v=j) assign_ok(t=i,v=j) cast_ok(lhs=i,target=j)
                        cast_assignable_ok(lhs=i,target=j) arg_ok(value param=i,arg=j) arg_ok(Referenz param=i, assignable arg=j) return_ok(ret=i,v=j)
     W                  well-formedness (ids identify objects) of the registered population
   Function instantiation cache (coq/Types/GenericFun.v): FR reset | FX <f> <extern 0/1> <declaring module> |
   FQ <f> <genericModule or -> <p.module> <spec>:<ref 0/1> ... -> "FQ H|N <id>" | FF <id> | FF @ (the body of <id> / of the last requested instantiation failed) | FZ (echo) |
   FD -> "FE <f> <key module> <spec;spec>" per entry.
   Type-level generic commands GR GS GI GC GB GU GT: see harness/go/cmd/typex/generic.go (same syntax, same
   output; instantiated Kombinationen are renumbered 1000.. in the order they are first printed). *)
open C14_model
open Common

let rec pos_of_int i = if i = 1 then XH else if i land 1 = 0 then XO (pos_of_int (i / 2)) else XI (pos_of_int (i / 2))
let n_of_int i = if i = 0 then N0 else Npos (pos_of_int i)
let rec int_of_pos = function XH -> 1 | XO p -> 2 * int_of_pos p | XI p -> 2 * int_of_pos p + 1
let int_of_n = function N0 -> 0 | Npos p -> int_of_pos p

(* ---- spec parser ---- *)
let parse_spec (s : string) : ty =
  let n = String.length s in
  let pos = ref 0 in
  let peek () = if !pos < n then s.[!pos] else '\000' in
  let adv () = incr pos in
  let name_id () =
    (* <name>#<digits> *)
    while peek () <> '#' do adv () done;
    adv ();
    let st = !pos in
    while !pos < n && s.[!pos] >= '0' && s.[!pos] <= '9' do adv () done;
    n_of_int (int_of_string (String.sub s st (!pos - st))) in
  let rec go () =
    let c = peek () in
    adv ();
    match c with
    | 'Z' -> Prim PZahl | 'K' -> Prim PKommazahl | 'B' -> Prim PByte | 'W' -> Prim PWahrheitswert
    | 'C' -> Prim PBuchstabe | 'T' -> Prim PText | 'V' -> Any | 'N' -> Void
    | 'L' -> adv (); let e = go () in adv (); List e
    | 'S' -> Struct (name_id ())
    | 'G' -> TParam (name_id ())
    | 'A' -> let i = name_id () in adv (); let u = go () in adv (); Alias (i, u)
    | 'D' -> let i = name_id () in adv (); let u = go () in adv (); Def (i, u)
    | 'I' -> let i = name_id () in adv (); let u = go () in adv (); Inst (i, u)
    | _ -> failwith ("bad spec " ^ s) in
  let t = go () in
  if !pos <> n then failwith ("trailing input in spec " ^ s);
  t

let rec show = function
  | Prim PZahl -> "Z" | Prim PKommazahl -> "K" | Prim PByte -> "B" | Prim PWahrheitswert -> "W"
  | Prim PBuchstabe -> "C" | Prim PText -> "T" | Any -> "V" | Void -> "N"
  | List e -> "L(" ^ show e ^ ")"
  | Struct i -> Printf.sprintf "S#%d" (int_of_n i)
  | TParam i -> Printf.sprintf "G#%d" (int_of_n i)
  | Alias (i, u) -> Printf.sprintf "A#%d(%s)" (int_of_n i) (show u)
  | Def (i, u) -> Printf.sprintf "D#%d(%s)" (int_of_n i) (show u)
  | Inst (i, u) -> Printf.sprintf "I#%d(%s)" (int_of_n i) (show u)

let bit b = if b then '1' else '0'

(* ---- function instantiation cache state ---- *)
let fextern : (int, bool) Hashtbl.t = Hashtbl.create 8
let fdeclmod : (int, int) Hashtbl.t = Hashtbl.create 8
let f_is_extern f = try Hashtbl.find fextern (int_of_n f) with Not_found -> false
let f_decl_mod f = n_of_int (try Hashtbl.find fdeclmod (int_of_n f) with Not_found -> 0)
let fst_ = ref fstate0
let last_fq = ref 0

(* ---- generic scenario state ---- *)
let rec nat_of_int i = if i <= 0 then O else S (nat_of_int (i - 1))
let arities : (int, int) Hashtbl.t = Hashtbl.create 8
let arity g = nat_of_int (try Hashtbl.find arities (int_of_n g) with Not_found -> -1)
let first_id = 100000
let gst = ref (gstate0 (n_of_int first_id))
let sigma : (n * ty) list ref = ref []
let seen_fwd : (int, int) Hashtbl.t = Hashtbl.create 16   (* model id -> printed number *)
let seen_rev : (int, int) Hashtbl.t = Hashtbl.create 16   (* printed number -> model id *)
let register id =
  if not (Hashtbl.mem seen_fwd id) then begin
    let k = 1000 + Hashtbl.length seen_fwd in
    Hashtbl.replace seen_fwd id k; Hashtbl.replace seen_rev k id end
let rec to_model = function        (* printed numbers -> model ids *)
  | Struct i -> (match Hashtbl.find_opt seen_rev (int_of_n i) with Some m -> Struct (n_of_int m) | None -> Struct i)
  | List e -> List (to_model e) | Alias (i, u) -> Alias (i, to_model u) | Def (i, u) -> Def (i, to_model u)
  | Inst (i, u) -> Inst (i, to_model u) | t -> t
let rec of_model = function        (* model ids -> printed numbers, registering new objects in order of appearance *)
  | Struct i when int_of_n i >= first_id -> register (int_of_n i); Struct (n_of_int (Hashtbl.find seen_fwd (int_of_n i)))
  | List e -> List (of_model e) | Alias (i, u) -> Alias (i, of_model u) | Def (i, u) -> Def (i, of_model u)
  | Inst (i, u) -> Inst (i, of_model u) | t -> t
let tparam_name s = match parse_spec s with TParam n -> n | _ -> failwith ("not a type parameter: " ^ s)
let show_sigma () =
  let l = List.sort compare (List.map (fun (n, t) -> (int_of_n n, t)) !sigma) in
  String.concat "" (List.map (fun (n, t) -> Printf.sprintf " G#%d=%s" n (show (of_model t))) l)

let () =
  let types : (int, ty) Hashtbl.t = Hashtbl.create 1024 in
  let all () = let n = Hashtbl.length types in Array.init n (fun i -> Hashtbl.find types i) in
  let row ts f = let b = Bytes.create (Array.length ts) in Array.iteri (fun j t -> Bytes.set b j (bit (f t))) ts; Bytes.to_string b in
  List.iter (fun line ->
    match split_ws line with
    | ["T"; idx; spec] -> Hashtbl.replace types (int_of_string idx) (parse_spec spec)
    | ["U"] ->
      Array.iteri (fun i t ->
        let bits = String.init 9 (fun k -> bit (match k with
          | 0 -> is_primitive t | 1 -> is_numeric t | 2 -> is_list t | 3 -> is_void t | 4 -> is_struct t
          | 5 -> is_type_alias t | 6 -> is_type_def t | 7 -> is_any t | _ -> is_generic t)) in
        Printf.printf "U %d %s %s %s %s %s %s %s\n" i bits (show (underlying t)) (show (true_underlying t))
          (show (list_true_underlying t)) (show (list_elem t)) (show (nested_list_elem t))
          (match cast_type_def t with Some u -> show u | None -> "-")) (all ())
    | ["E"] ->
      let ts = all () in
      Array.iteri (fun i a -> Printf.printf "E %d %s %s\n" i (row ts (equal a)) (row ts (deep_equal a))) ts
    | ["P"] ->
      let ts = all () in
      Array.iteri (fun i a ->
        Printf.printf "P %d %s %s %s %s %s %s %s\n" i (row ts (init_ok a)) (row ts (assign_ok a)) (row ts (cast_ok a)) (row ts (cast_assignable_ok a))
          (row ts (arg_ok false true false a)) (row ts (arg_ok true true false a)) (row ts (return_ok true a))) ts
    | ["W"] -> Printf.printf "W %c\n" (bit (wf_types (Array.to_list (all ()))))
    | ["FR"] -> Hashtbl.reset fextern; Hashtbl.reset fdeclmod; fst_ := fstate0
    | ["FX"; f; x; d] -> Hashtbl.replace fextern (int_of_string f) (x = "1"); Hashtbl.replace fdeclmod (int_of_string f) (int_of_string d)
    | "FQ" :: f :: g :: pm :: ps ->
      let params = List.map (fun s -> match String.split_on_char ':' s with [sp; r] -> (parse_spec sp, r = "1") | _ -> failwith "bad param") ps in
      let gm = if g = "-" then None else Some (n_of_int (int_of_string g)) in
      let (r, st') = fstep f_is_extern f_decl_mod !fst_ (EReq (n_of_int (int_of_string f), gm, n_of_int (int_of_string pm), params)) in
      fst_ := st';
      (match r with Hit i -> last_fq := int_of_n i; Printf.printf "FQ H %d\n" (int_of_n i) | New i -> last_fq := int_of_n i; Printf.printf "FQ N %d\n" (int_of_n i) | Done -> print_endline "FQ ?")
    | ["FF"; "@"] -> let (_, st') = fstep f_is_extern f_decl_mod !fst_ (EFail (n_of_int !last_fq)) in fst_ := st'
    | ["FZ"] -> print_endline "FZ"
    | ["FF"; id] -> let (_, st') = fstep f_is_extern f_decl_mod !fst_ (EFail (n_of_int (int_of_string id))) in fst_ := st'
    | ["FD"] ->
      List.iter (fun e -> Printf.printf "FE %d %d %s\n" (int_of_n e.fe_fun) (int_of_n e.fe_mod)
        (String.concat ";" (List.map (fun (t, r) -> show t ^ (if r then "&" else "")) e.fe_params))) !fst_.fins
    | ["GR"] -> Hashtbl.reset arities; Hashtbl.reset seen_fwd; Hashtbl.reset seen_rev; gst := gstate0 (n_of_int first_id); sigma := []
    | "GS" :: gid :: ps -> Hashtbl.replace arities (int_of_string gid) (List.length ps)
    | "GI" :: gid :: specs ->
      let args = List.map (fun s -> to_model (parse_spec s)) specs in
      let (r, st') = get_inst arity !gst (n_of_int (int_of_string gid)) args in
      gst := st';
      (match r with None -> print_endline "GI nil" | Some s -> Printf.printf "GI %s\n" (show (of_model (Struct s))))
    | ["GC"] -> sigma := []
    | ["GB"; g; spec] -> sigma := !sigma @ [(tparam_name g, to_model (parse_spec spec))]
    | ["GU"; a; p] ->
      let ((r, sg), st') = unify arity !gst (to_model (parse_spec a)) (to_model (parse_spec p)) !sigma in
      gst := st'; sigma := sg;
      let res = match r with UNil -> "nil" | UPanic -> "panic" | UFuel -> "fuel" | UOk t -> show (of_model t) in
      Printf.printf "GU %s%s\n" res (show_sigma ())
    | ["GT"; spec] ->
      let (r, st') = instantiate_type arity !gst (to_model (parse_spec spec)) !sigma in
      gst := st';
      Printf.printf "GT %s\n" (match r with None -> "nil" | Some t -> show (of_model t))
    | [] -> ()
    | _ -> failwith ("bad line " ^ line)) (read_lines stdin)
