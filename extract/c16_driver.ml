(* Runs the extracted C16 model: for every case line prints the SET of observations the model allows
   (the site evaluated under every iteration order of its maps).
   Case lines (fields separated by blanks, list items by ';', sub-items by ',', diag lists by '+', '-' = empty):
     I  <existing>  <decl;decl;...>      decl = name,line,col,pdiags     -> import_site        (pinned comparator)
     IF <existing>  <decls>                                             -> import_site_fixed  (lexicographic)
     IO <decls>                                                         -> order of the imported symbols
     C  <arg;arg;...>                    arg  = name,rdiags,tdiags       -> call_stmt
     CF <params>    <args>                                              -> call_stmt_fixed
     U  <k,b;k,b;...>                    b = 1 unified / 0 not          -> unify_report
     UF <entries>
     L  <dep;dep;...>                    dep = L,dir,file | O,path       -> gcc command lines
   Output: one line per case: the tag, then the distinct observations, sorted.
     observation = <delivered diag or ->/<faulty 0|1> ; for IO/L a '.'-joined sequence *)
open C16_model
open Common

let rec pos_of_int i = if i = 1 then XH else if i land 1 = 0 then XO (pos_of_int (i / 2)) else XI (pos_of_int (i / 2))
let n_of_int i = if i = 0 then N0 else Npos (pos_of_int i)
let rec int_of_pos = function XH -> 1 | XO p -> 2 * int_of_pos p | XI p -> 2 * int_of_pos p + 1
let int_of_n = function N0 -> 0 | Npos p -> int_of_pos p

let split c s = if s = "-" || s = "" then [] else String.split_on_char c s
let nlist c s = List.map (fun x -> n_of_int (int_of_string x)) (split c s)

let show_obs (d, f) =
  (match d with None -> "-" | Some n -> string_of_int (int_of_n n)) ^ "/" ^ (if f then "1" else "0")
let uniq l = List.sort_uniq compare l
let out tag l = print_endline (String.concat " " (tag :: uniq l))

let decl_of s = match String.split_on_char ',' s with
  | [n; l; c; p] -> { d_name = n_of_int (int_of_string n); d_pos = { line = n_of_int (int_of_string l); col = n_of_int (int_of_string c) }; d_pdiags = nlist '+' p }
  | _ -> failwith ("bad decl " ^ s)
let arg_of s = match String.split_on_char ',' s with
  | [n; r; t] -> { a_name = n_of_int (int_of_string n); a_rdiags = nlist '+' r; a_tdiags = nlist '+' t }
  | _ -> failwith ("bad arg " ^ s)
let entry_of s = match String.split_on_char ',' s with
  | [k; b] -> (n_of_int (int_of_string k), b = "1")
  | _ -> failwith ("bad entry " ^ s)
let dep_of s = match String.split_on_char ',' s with
  | ["L"; d; f] -> Lib (n_of_int (int_of_string d), n_of_int (int_of_string f))
  | ["O"; p] -> Obj (n_of_int (int_of_string p))
  | _ -> failwith ("bad dep " ^ s)
let show_garg = function
  | ArgL d -> "L" ^ string_of_int (int_of_n d)
  | ArgIn p -> "i" ^ string_of_int (int_of_n p)
  | Argl f -> "l" ^ string_of_int (int_of_n f)

let () =
  List.iter (fun line ->
    match split_ws line with
    | ["I"; ex; ds] -> out "I" (List.map show_obs (predict_import (nlist ',' ex) (List.map decl_of (split ';' ds))))
    | ["IF"; ex; ds] -> out "IF" (List.map show_obs (predict_import_fixed (nlist ',' ex) (List.map decl_of (split ';' ds))))
    | ["IO"; ds] -> out "IO" (List.map (fun o -> String.concat "." (List.map (fun n -> string_of_int (int_of_n n)) o)) (predict_import_order (List.map decl_of (split ';' ds))))
    | ["C"; args] -> out "C" (List.map show_obs (predict_call (List.map arg_of (split ';' args))))
    | ["CF"; ps; args] -> out "CF" (List.map show_obs (predict_call_fixed (nlist ',' ps) (List.map arg_of (split ';' args))))
    | ["U"; es] -> out "U" (List.map show_obs (predict_unify (List.map entry_of (split ';' es))))
    | ["UF"; es] -> out "UF" (List.map show_obs (predict_unify_fixed (List.map entry_of (split ';' es))))
    | ["L"; ds] -> out "L" (List.map (fun c -> String.concat "." (List.map show_garg c)) (predict_link (List.map dep_of (split ';' ds))))
    | [] -> ()
    | _ -> print_endline "?") (read_lines stdin)
