(* C17 model driver.  One query per line: "<function> <arg> <arg> ..." with arguments
     z:<int>            a Zahl / Buchstabe / element index
     l:<int>,<int>,...  a list of Zahlen or the code points of a Text
     L:<cp>,..;<cp>,..; a list of Texts (each terminated by ';')
   One answer per line: "E" (Laufzeitfehler), "F" (out of fuel), "U" (outside the model), "?" (function not modelled) or
   "<result>|<arg0 afterwards>|<arg1 afterwards>..." in the same notation (empty result for statements). *)
open C17_model
open Common

let rec pos_of_i64 (i : int64) : positive =
  if i = 1L then XH
  else if Int64.logand i 1L = 0L then XO (pos_of_i64 (Int64.shift_right_logical i 1))
  else XI (pos_of_i64 (Int64.shift_right_logical i 1))
let z_of_string (s : string) : z =
  let v = Int64.of_string s in
  if v = 0L then Z0
  else if v > 0L then Zpos (pos_of_i64 v)
  else if v = Int64.min_int then Zneg (pos_of_i64 v)
  else Zneg (pos_of_i64 (Int64.neg v))
(* results may exceed 64 bits nowhere: every value operation of the model wraps *)
let rec i64_of_pos = function XH -> 1L | XO p -> Int64.mul 2L (i64_of_pos p) | XI p -> Int64.add 1L (Int64.mul 2L (i64_of_pos p))
let string_of_z = function Z0 -> "0" | Zpos p -> Printf.sprintf "%Lu" (i64_of_pos p) | Zneg p -> "-" ^ Printf.sprintf "%Lu" (i64_of_pos p)

exception Laufzeitfehler
exception OutOfFuel
exception Outside
exception Unknown

type arg = Z of z | L of z list | LL of z list list

let parse_ints s = List.map z_of_string (List.filter (fun x -> x <> "") (String.split_on_char ',' s))
let parse_arg (s : string) : arg =
  let body = String.sub s 2 (String.length s - 2) in
  match s.[0] with
  | 'z' -> Z (z_of_string body)
  | 'l' -> L (parse_ints body)
  | 'L' ->
      let parts = String.split_on_char ';' body in
      let parts = List.filteri (fun i _ -> i < List.length parts - 1) parts in
      LL (List.map parse_ints parts)
  | _ -> raise Unknown

let pz v = "z:" ^ string_of_z v
let pl l = "l:" ^ String.concat "," (List.map string_of_z l)
let pll ll = "L:" ^ String.concat "" (List.map (fun t -> String.concat "," (List.map string_of_z t) ^ ";") ll)
let pb b = if b then "z:1" else "z:0"
let pfrac (a, b) = "z:" ^ string_of_z a ^ "," ^ string_of_z b
let get = function Ok a -> a | Err -> raise Laufzeitfehler | NoFuel -> raise OutOfFuel | Undef -> raise Outside
let out fields = String.concat "|" fields
let zeqb a b = (a = b)
let z0 = Z0
let four = z_of_string "4"

let run (name : string) (args : arg list) : string =
  match name, args with
  (* ---- Listen ---- *)
  | "Leere_Liste", [L l] -> out [""; pl (leere_Liste l)]
  | "Hinzufügen_Liste", [L l; Z x] -> out [""; pl (hinzufuegen_Liste l x); pz x]
  | "Hinzufügen_Liste_Liste", [L l; L o] -> out [""; pl (hinzufuegen_Liste_Liste l o); pl o]
  | "Einfügen_Liste", [L l; Z i; Z x] -> out [""; pl (get (einfuegen_Liste l i x)); pz i; pz x]
  | "Einfügen_Bereich_Liste", [L l; Z i; L r] -> out [""; pl (get (einfuegen_Bereich_Liste l i r)); pz i; pl r]
  | "Voranstellen_Liste", [L l; Z x] -> out [""; pl (voranstellen_Liste l x); pz x]
  | "Voranstellen_Liste_Liste", [L l; L o] -> out [""; pl (voranstellen_Liste_Liste l o); pl o]
  | "Lösche_Element", [L l; Z i] -> out [""; pl (get (loesche_Element l i)); pz i]
  | "Lösche_Bereich", [L l; Z s; Z e] -> out [""; pl (get (loesche_Bereich l s e)); pz s; pz e]
  | "Füllen_Liste", [L l; Z x] -> out [""; pl (get (fuellen_Liste l x)); pz x]
  | "Index_Von_Element", [L l; Z x] -> out [pz (get (index_Von_Element_Ref zeqb l x)); pl l; pz x]
  | "Enthält_Wert", [L l; Z x] -> out [pb (enthaelt_Wert_Ref zeqb l x); pl l; pz x]
  | "Enthält_Wert_nicht", [L l; Z x] -> out [pb (not (enthaelt_Wert_Ref zeqb l x)); pl l; pz x]
  | "Ist_Leer_Liste", [L l] -> out [pb (ist_Leer_Liste_Ref l); pl l]
  | "Erste_N_Elemente_Liste", [L l; Z n] -> out [pl (get (erste_N_Elemente_Liste_Ref l n)); pl l; pz n]
  | "Letzten_N_Elemente_Liste", [L l; Z n] -> out [pl (get (letzten_N_Elemente_Liste_Ref l n)); pl l; pz n]
  | "Liste_Spiegeln", [L l] -> out [pl (get (liste_Spiegeln_Ref z0 l)); pl l]
  | "Summe_Liste", [L l] -> out [pz (summe_Liste l); pl l]
  | "Produkt_Liste", [L l] -> out [pz (produkt_Liste l); pl l]
  | "Elementweise_Summe", [L a; L b] -> out [pl (get (elementweise_Summe a b)); pl a; pl b]
  | "Elementweise_Differenz", [L a; L b] -> out [pl (get (elementweise_Differenz a b)); pl a; pl b]
  | "Elementweise_Produkt", [L a; L b] -> out [pl (get (elementweise_Produkt a b)); pl a; pl b]
  | "Aneinandergehängt_Buchstabe", [L l] -> out [pl (aneinandergehaengt_Buchstabe_Ref l); pl l]
  | "Verketten_Text_Liste", [LL l] -> out [pl (verketten_Text_Liste_Ref l); pll l]
  | "Elementweise_Verketten_Text", [LL a; LL b] -> out [pll (get (elementweise_Verketten_Text_Ref a b)); pll a; pll b]
  | "Aufsteigende_Zahlen", [Z s; Z e] -> out [pl (get (aufsteigende_Zahlen s e)); pz s; pz e]
  | "Absteigende_Zahlen", [Z s; Z e] -> out [pl (get (absteigende_Zahlen s e)); pz s; pz e]
  (* ---- Texte ---- *)
  | "Erster_Buchstabe", [L t] -> out [pl [get (erster_Buchstabe t)]; pl t]
  | "Nter_Buchstabe", [Z n; L t] -> out [pl [get (nter_Buchstabe n t)]; pz n; pl t]
  | "Letzter_Buchstabe", [L t] -> out [pl [get (letzter_Buchstabe t)]; pl t]
  | ("Entferne_Anzahl_Vorne_Mutierend"), [L t; Z n] -> out [""; pl (get (entferne_Anzahl_Vorne t n)); pz n]
  | ("Entferne_Anzahl_Hinten_Mutierend"), [L t; Z n] -> out [""; pl (get (entferne_Anzahl_Hinten t n)); pz n]
  | "Entferne_Anzahl_Vorne", [L t; Z n] -> out [pl (get (entferne_Anzahl_Vorne t n)); pl t; pz n]
  | "Entferne_Anzahl_Hinten", [L t; Z n] -> out [pl (get (entferne_Anzahl_Hinten t n)); pl t; pz n]
  | "Trim_Anfang", [L t; L [z]] -> out [""; pl (get (trim_Anfang t z)); pl [z]]
  | "Trim_Anfang_Wert", [L t; L [z]] -> out [pl (get (trim_Anfang t z)); pl t; pl [z]]
  | "Trim_Ende", [L t; L [z]] -> out [""; pl (get (trim_Ende t z)); pl [z]]
  | "Trim_Ende_Wert", [L t; L [z]] -> out [pl (get (trim_Ende t z)); pl t; pl [z]]
  | "Trim", [L t; L [z]] -> out [""; pl (get (trim t z)); pl [z]]
  | "Trim_Wert", [L t; L [z]] -> out [pl (get (trim t z)); pl t; pl [z]]
  | "Text_Enthält_Buchstabe", [L t; L [z]] -> out [pb (text_Enthaelt_Buchstabe t z); pl t; pl [z]]
  | "Text_Anzahl_Buchstabe", [L t; L [z]] -> out [pz (text_Anzahl_Buchstabe t z); pl t; pl [z]]
  | "Text_Enthält_Text", [L t; L s] -> out [pb (get (text_Enthaelt_Text t s)); pl t; pl s]
  | "Text_Anzahl_Text", [L t; L s] -> out [pz (get (text_Anzahl_Text t s)); pl t; pl s]
  | "Text_Anzahl_Text_Nicht_Überlappend", [L t; L s] -> out [pz (get (text_Anzahl_Text_Nicht_Ueberlappend t s)); pl t; pl s]
  | "Beginnt_Mit_Buchstabe", [L t; L [z]] -> out [pb (get (beginnt_Mit_Buchstabe t z)); pl t; pl [z]]
  | "Beginnt_Mit_Text", [L t; L s] -> out [pb (get (beginnt_Mit_Text t s)); pl t; pl s]
  | "Endet_Mit_Buchstabe", [L t; L [z]] -> out [pb (get (endet_Mit_Buchstabe t z)); pl t; pl [z]]
  | "Endet_Mit_Text", [L t; L s] -> out [pb (get (endet_Mit_Text t s)); pl t; pl s]
  | "Text_Leeren", [L t] -> out [""; pl (text_Leeren t)]
  | "Text_An_Text_Fügen", [L t; L e] -> out [""; pl (text_An_Text_Fuegen t e); pl e]
  | "Buchstabe_An_Text_Fügen", [L t; L [e]] -> out [""; pl (buchstabe_An_Text_Fuegen t e); pl [e]]
  | "Text_In_Text_Einfügen", [L t; Z i; L e] -> out [""; pl (get (text_In_Text_Einfuegen t i e)); pz i; pl e]
  | "Buchstabe_In_Text_Einfügen", [L t; Z i; L [e]] -> out [""; pl (get (buchstabe_In_Text_Einfuegen t i e)); pz i; pl [e]]
  | "Text_Vor_Text_Stellen", [L t; L e] -> out [""; pl (text_Vor_Text_Stellen t e); pl e]
  | "Buchstabe_Vor_Text_Stellen", [L t; L [e]] -> out [""; pl (buchstabe_Vor_Text_Stellen t e); pl [e]]
  | "Lösche_Text", [L t; Z i] -> out [""; pl (get (loesche_Text t i)); pz i]
  | "Lösche_Text_Bereich", [L t; Z s; Z e] -> out [""; pl (get (loesche_Text_Bereich t s e)); pz s; pz e]
  | "Fülle_Text", [L t; L [z]] -> out [""; pl (get (fuelle_Text t z)); pl [z]]
  | "Buchstaben_Text_BuchstabenListe", [L t] -> out [pl (get (buchstaben_TextRef_BuchstabenListe t)); pl t]
  | "Buchstaben_Text_TextListe", [L t] -> out [pll (get (buchstaben_TextRef_TextListe t)); pl t]
  | "Text_Index_Von_Buchstabe", [L t; L [z]] -> out [pz (text_Index_Von_Buchstabe_Ref t z); pl t; pl [z]]
  | "Text_Index_Von_Text", [L t; L s] -> out [pz (get (text_Index_Von_Text t s)); pl t; pl s]
  | "Ist_Text_Leer", [L t] -> out [pb (ist_Text_Leer_Ref t); pl t]
  | "Großschreiben_Wert", [L t] -> out [pl (grossschreiben_Wert t); pl t]
  | "Großschreiben", [L t] -> out [""; pl (grossschreiben_Wert t)]
  | "Kleinschreiben_Wert", [L t] -> out [pl (kleinschreiben_Wert t); pl t]
  | "Kleinschreiben", [L t] -> out [""; pl (kleinschreiben_Wert t)]
  | "Polster_Links", [L t; L [z]; Z n] -> out [pl (polster_Links t z n); pl t; pl [z]; pz n]
  | "Polster_Rechts", [L t; L [z]; Z n] -> out [pl (polster_Rechts t z n); pl t; pl [z]; pz n]
  | "Spalte", [L t; L [z]] -> out [pll (get (spalte t z)); pl t; pl [z]]
  | "Spalte_Text", [L t; L s] -> out [pll (get (spalte_Text t s)); pl t; pl s]
  | "Finde_Subtext", [L t; L s] -> out [pl (get (finde_Subtext t s)); pl t; pl s]
  | "Verbinden_Text", [LL l; L [z]] -> out [pl (get (verbinden_Text l z)); pll l; pl [z]]
  | "Verbinden_Buchstabe", [L l; L [z]] -> out [pl (get (verbinden_Buchstabe l z)); pl l; pl [z]]
  | "Verbinden_Zahl", [L l; L [z]] -> out [pl (get (verbinden_Zahl l z)); pl l; pl [z]]
  | "Levenshtein_Distanz", [L a; L b] -> out [pz (get (levenshtein_Distanz a b)); pl a; pl b]
  | "Text_Zu_ByteListe", [L t] -> out [pl (text_Zu_ByteListe t); pl t]
  | "ByteListe_Zu_Text", [L b] -> out [pl (byteListe_Zu_Text b); pl b]
  | "Hamming_Distanz", [L a; L b] -> out [pz (get (hamming_Distanz a b)); pl a; pl b]
  | "Vergleiche_Text", [L a; L b] -> out [pz (get (vergleiche_Text a b)); pl a; pl b]
  | "Spalten_Spaltmenge_Text", [L t; L m] -> out [pll (get (spalten_Spaltmenge_Text_Ref t m)); pl t; pl m]
  | "Spalten_SpaltmengeText_Text", [L t; L m] -> out [pll (get (spalten_SpaltmengeText_Text t m)); pl t; pl m]
  | "Text_Worte", [L t] -> out [pll (get (text_Worte_Ref t)); pl t]
  (* ---- Sortierung ---- *)
  | "Tausche", [Z a; Z b] -> let (a', b') = tausche a b in out [""; pz a'; pz b']
  | "Quicksort_Ref", [L l] -> out [""; pl (get (quicksort_Ref l))]
  | "Quicksort", [L l] -> out [pl (get (quicksort l)); pl l]
  | "Quicksort_Tiefe", [L l] -> let (_, d) = get (quicksort_Tiefe l) in out [pz d]
  (* ---- Mathe / Statistik ---- *)
  | "Max", [Z a; Z b] -> out [pz (c17_Max a b); pz a; pz b]
  | "Max3", [Z a; Z b; Z c] -> out [pz (max3 a b c); pz a; pz b; pz c]
  | "Min", [Z a; Z b] -> out [pz (c17_Min a b); pz a; pz b]
  | "Min3", [Z a; Z b; Z c] -> out [pz (min3 a b c); pz a; pz b; pz c]
  | "Clamp", [Z w; Z mx; Z mn] -> out [pz (clamp w mx mn); pz w; pz mx; pz mn]
  | "Sign", [Z w] -> out [pz (sign w); pz w]
  | "Größter_Gemeinsamer_Teiler", [Z a; Z b] -> out [pz (get (groesster_Gemeinsamer_Teiler a b)); pz a; pz b]
  | "Kleinster_Gemeinsamer_Teiler", [Z a; Z b] -> out [pz (get (kleinster_Gemeinsamer_Teiler a b)); pz a; pz b]
  | "Ist_Teilbar", [Z a; Z b] -> out [pb (get (ist_Teilbar a b)); pz a; pz b]
  | "Gerade_Zahl", [Z x] -> out [pb (gerade_Zahl x); pz x]
  | "Fakultät", [Z x] -> out [pz (get (fakultaet x)); pz x]
  | "Primfaktorzerlegung", [Z x] -> out [pl (get (primfaktorzerlegung x)); pz x]
  | "Teilerzerlegung", [Z x] -> out [pl (teilerzerlegung x); pz x]
  | "Floor", [Z q] -> out [pz (floor q four); pz q]
  | "Ceil", [Z q] -> out [pz (ceil q four); pz q]
  | "Trunc", [Z q] -> out [pz (trunc q four); pz q]
  | "Höchste_ListeZ", [L l] -> out [pz (hoechste_ListeZ l); pl l]
  | "Kleinste_ListeZ", [L l] -> out [pz (kleinste_ListeZ l); pl l]
  | "Mindestens_Liste", [Z x; L l] -> out [pfrac (mindestens_Liste x l); pz x; pl l]
  | "Höchstens_Liste", [Z x; L l] -> out [pfrac (hoechstens_Liste x l); pz x; pl l]
  | "Zwischen_Liste", [Z x; Z y; L l] -> out [pfrac (zwischen_Liste x y l); pz x; pz y; pl l]
  | "Absolute_Häufigkeit", [L l; Z x] -> out [pz (absolute_Haeufigkeit l x); pl l; pz x]
  | _ -> raise Unknown

let () =
  List.iter (fun line ->
    match split_ws line with
    | name :: args ->
        (try print_endline (run name (List.map parse_arg args)) with
         | Laufzeitfehler -> print_endline "E"
         | OutOfFuel -> print_endline "F"
         | Outside -> print_endline "U"
         | Unknown | Match_failure _ | Invalid_argument _ | Failure _ -> print_endline "?")
    | [] -> print_endline "?") (read_lines stdin)
