(* Runs the extracted C18 model (Lower/Abi.v). One case per input line:
     <name> <ret> <kinds> <param>*
   ret   = "-" (nichts) or a type;  kinds = one letter t|v per parameter ("-" for arity 0);
   param = v:<type> | r:<type>
   type  = Z K B W C T V | L(<type>) | S(<type>,...) | N(<type>)
   One output line per case:
     IR <name> <ret> (<p>;...) | C <name> <ret> (<p>;...) | ABI <same 1/0> | PLAN <a>,... | RUN ok freed=<i>,.. slots=<n> temps=<n> result=<0/1> args=<..>  (or RUN error) | IRI <name> <ret> (<p>;...)   (declaration in an importing module) *)
open C18_model
open Common

let rec nat_of_int i = if i <= 0 then O else S (nat_of_int (i - 1))
let rec int_of_nat = function O -> 0 | S n -> 1 + int_of_nat n
let rec pos_of_int i = if i = 1 then XH else if i land 1 = 0 then XO (pos_of_int (i / 2)) else XI (pos_of_int (i / 2))
let n_of_int i = if i = 0 then N0 else Npos (pos_of_int i)
let rec int_of_pos = function XH -> 1 | XO p -> 2 * int_of_pos p | XI p -> 2 * int_of_pos p + 1
let int_of_n = function N0 -> 0 | Npos p -> int_of_pos p
let str_of_string s = List.init (String.length s) (fun i -> n_of_int (Char.code s.[i]))
let string_of_str l = String.concat "" (List.map (fun c -> String.make 1 (Char.chr (int_of_n c))) l)

(* ---- type parser ---- *)
let parse_ty (s : string) : ty =
  let pos = ref 0 in
  let peek () = if !pos < String.length s then s.[!pos] else '\000' in
  let adv () = incr pos in
  let rec ty () =
    let c = peek () in
    adv ();
    match c with
    | 'Z' -> TPrim PZahl | 'K' -> TPrim PKommazahl | 'B' -> TPrim PByte | 'W' -> TPrim PWahrheitswert
    | 'C' -> TPrim PBuchstabe | 'T' -> TText | 'V' -> TVariable
    | 'L' -> adv (); let e = ty () in adv (); TList e
    | 'N' -> adv (); let e = ty () in adv (); TNamed e
    | 'S' ->
      adv ();
      let rec fields acc =
        if peek () = ')' then (adv (); List.rev acc)
        else begin
          let f = ty () in
          if peek () = ',' then adv ();
          fields (f :: acc)
        end in
      TStruct (fields [])
    | _ -> failwith ("bad type: " ^ s) in
  ty ()

(* ---- printers ---- *)
let rec show_ll = function
  | LI1 -> "i1" | LI8 -> "i8" | LI32 -> "i32" | LI64 -> "i64" | LDouble -> "double" | LVoid -> "void"
  | LPtr t -> show_ll t ^ "*"
  | LStruct fs -> "{" ^ String.concat "," (List.map show_ll fs) ^ "}"
  | LArray (n, t) -> Printf.sprintf "[%d x %s]" (int_of_nat n) (show_ll t)

let rec show_c = function
  | CInt64 -> "int64_t" | CDouble -> "double" | CUInt8 -> "uint8_t" | CBool -> "bool" | CInt32 -> "int32_t"
  | CChar -> "char" | CVoid -> "void" | CVtable -> "ddpvtable"
  | CPtr t -> show_c t ^ "*"
  | CStruct fs -> "struct{" ^ String.concat "" (List.map (fun f -> show_c f ^ ";") fs) ^ "}"
  | CAnyUnion -> "union{void*;uint8_t[16];}"

let show_action = function
  | AllocRet -> "allocret" | PassValue i -> Printf.sprintf "value%d" (int_of_nat i)
  | PassRef i -> Printf.sprintf "ref%d" (int_of_nat i) | Copy i -> Printf.sprintf "copy%d" (int_of_nat i)
  | Claim i -> Printf.sprintf "claim%d" (int_of_nat i) | Call -> "call" | ResultTemp -> "resulttemp"
  | FreeArg k -> Printf.sprintf "freearg%d" (int_of_nat k)
  | FreeArgCast k -> Printf.sprintf "freeargcast%d" (int_of_nat k)

let show_argval = function
  | VRet -> "ret" | VPrim i -> Printf.sprintf "prim%d" (int_of_nat i)
  | VRefTo i -> Printf.sprintf "refto%d" (int_of_nat i) | VSlot i -> Printf.sprintf "slot%d" (int_of_nat i)

let ints l = String.concat "," (List.map (fun i -> string_of_int (int_of_nat i)) l)

let () =
  List.iter (fun line ->
    match split_ws line with
    | "TY" :: t :: [] ->
      (* representation of one type on both sides *)
      let t = parse_ty t in
      Printf.printf "TY %s | %s | wf=%d\n" (show_ll (ll_ty t)) (show_c (c_ty t)) (if wf_ty t then 1 else 0)
    | ["SP"; base; form] ->
      (* frontend: the spelling of <base> in <form>, what the parser model makes of it, what it means
         base: Z K B W C T V N<id>; form: value ref listvalue listref parenvalue parenlistvalue
         output: SP <tokens> | <spec>:<isref> diag=<n> rest=<n> | <meant spec>:<isref> *)
      let b = match base.[0] with
        | 'Z' -> BPrim PZahl | 'K' -> BPrim PKommazahl | 'B' -> BPrim PByte | 'W' -> BPrim PWahrheitswert | 'C' -> BPrim PBuchstabe
        | 'T' -> BText | 'V' -> BVariable
        | _ -> BNamed (nat_of_int (int_of_string (String.sub base 1 (String.length base - 1)))) in
      let f = match form with
        | "value" -> FValue | "ref" -> FRef | "listvalue" -> FListValue | "listref" -> FListRef
        | "parenvalue" -> FParenValue | _ -> FParenListValue in
      let show_tok = function
        | TkZahl -> "Zahl" | TkKommazahl -> "Kommazahl" | TkByte -> "Byte" | TkWahrheitswert -> "Wahrheitswert" | TkBuchstabe -> "Buchstabe"
        | TkText -> "Text" | TkVariable -> "Variable" | TkZahlen -> "Zahlen" | TkKommazahlen -> "Kommazahlen" | TkBuchstaben -> "Buchstaben"
        | TkVariablen -> "Variablen" | TkIdent n -> Printf.sprintf "N%d" (int_of_nat n) | TkListe -> "Liste" | TkListen -> "Listen"
        | TkReferenz -> "Referenz" | TkLParen -> "(" | TkRParen -> ")" | TkOther -> "," in
      let rec show_sty = function
        | SPrim PZahl -> "Z" | SPrim PKommazahl -> "K" | SPrim PByte -> "B" | SPrim PWahrheitswert -> "W" | SPrim PBuchstabe -> "C"
        | SText -> "T" | SVariable -> "V" | SNamed n -> Printf.sprintf "N%d" (int_of_nat n) | SList e -> "L(" ^ show_sty e ^ ")" in
      let toks = spelled b f in
      let res = match parse_reference_type (app toks [TkOther]) with
        | None -> "none"
        | Some p -> Printf.sprintf "%s:%d diag=%d rest=%d" (show_sty p.pr_ty) (if p.pr_ref then 1 else 0) (int_of_nat p.pr_diag) (List.length p.pr_rest) in
      Printf.printf "SP %s | %s | %s:%d\n" (String.concat " " (List.map show_tok toks)) res (show_sty (meant_ty b f)) (if meant_ref f then 1 else 0)
    | "GEN" :: name :: ret :: kinds :: ps ->
      (* generic extern function: gv:<inst> = "T Liste" by value, gr:<inst> = Referenz mentioning T; ret GL:<inst> = "eine T Liste".
         The signature is lowered from the generic declaration, the plan from the instantiation. *)
      let is_list_ty t = (match t with TList _ -> true | _ -> false) in
      let gps = List.map (fun p ->
        let i = String.index p ':' in
        let tag = String.sub p 0 i and t = parse_ty (String.sub p (i + 1) (String.length p - i - 1)) in
        match tag with
        | "gv" -> (GListVal, { p_ty = t; p_ref = false }, true)
        | "gr" -> (GRef (is_list_ty t), { p_ty = t; p_ref = true }, true)
        | "r" -> (GConcrete { p_ty = t; p_ref = true }, { p_ty = t; p_ref = true }, false)
        | _ -> (GConcrete { p_ty = t; p_ref = false }, { p_ty = t; p_ref = false }, false)) ps in
      let gret, iret =
        if ret = "-" then (GRetConcrete None, None)
        else if String.length ret > 3 && String.sub ret 0 3 = "GL:" then (GRetList, Some (parse_ty (String.sub ret 3 (String.length ret - 3))))
        else (GRetConcrete (Some (parse_ty ret)), Some (parse_ty ret)) in
      let gs = { g_name = str_of_string name; g_params = List.map (fun (g, _, _) -> g) gps; g_ret = gret } in
      let inst = { s_name = str_of_string name; s_params = List.map (fun (_, p, _) -> p) gps; s_ret = iret } in
      let flags = List.map (fun (_, _, f) -> f) gps in
      let ks = if kinds = "-" then [] else List.init (String.length kinds) (fun i -> if kinds.[i] = 't' then ArgTemp else ArgVar) in
      let ir = lower_gsig gs and c = c_gsig gs in
      let plan = call_plan_g inst flags ks in
      let runres =
        match run (init_state (temp_indices O inst.s_params ks)) plan with
        | None -> "RUN error"
        | Some st ->
          Printf.sprintf "RUN ok freed=%s slots=%d temps=%d result=%d args=%s" (ints st.st_freed) (List.length st.st_slots)
            (List.length st.st_temps) (if st.st_result_owned then 1 else 0) (String.concat "," (List.map show_argval st.st_args)) in
      let cmp a b = a = b || loose a b in
      let ok = ir.is_name = c.cs_name && cmp (ll_rep ir.is_ret) (c_rep c.cs_ret)
               && List.length ir.is_params = List.length c.cs_params
               && List.for_all2 (fun a b -> cmp (ll_rep a) (c_rep b)) ir.is_params c.cs_params in
      let irs = Printf.sprintf "%s %s (%s)" (string_of_str ir.is_name) (show_ll ir.is_ret) (String.concat ";" (List.map show_ll ir.is_params)) in
      Printf.printf "IR %s | C %s %s (%s) | ABI %d | PLAN %s | %s | IRI %s\n" irs
        (string_of_str c.cs_name) (show_c c.cs_ret) (String.concat ";" (List.map show_c c.cs_params))
        (if ok then 1 else 0) (String.concat "," (List.map show_action plan)) runres irs
    | name :: ret :: kinds :: ps ->
      let params = List.map (fun p ->
        let r = p.[0] = 'r' in
        { p_ty = parse_ty (String.sub p 2 (String.length p - 2)); p_ref = r }) ps in
      let s = { s_name = str_of_string name; s_params = params; s_ret = (if ret = "-" then None else Some (parse_ty ret)) } in
      let ks = if kinds = "-" then [] else List.init (String.length kinds) (fun i -> if kinds.[i] = 't' then ArgTemp else ArgVar) in
      let ir = lower_sig s and c = c_sig s and iri = lower_sig_imported s in
      let plan = call_plan s ks in
      let runres =
        match run (init_state (temp_indices O params ks)) plan with
        | None -> "RUN error"
        | Some st ->
          Printf.sprintf "RUN ok freed=%s slots=%d temps=%d result=%d args=%s" (ints st.st_freed) (List.length st.st_slots)
            (List.length st.st_temps) (if st.st_result_owned then 1 else 0) (String.concat "," (List.map show_argval st.st_args)) in
      Printf.printf "IR %s %s (%s) | C %s %s (%s) | ABI %d | PLAN %s | %s | IRI %s %s (%s)\n"
        (string_of_str ir.is_name) (show_ll ir.is_ret) (String.concat ";" (List.map show_ll ir.is_params))
        (string_of_str c.cs_name) (show_c c.cs_ret) (String.concat ";" (List.map show_c c.cs_params))
        (if abi_of_ir ir = abi_of_c c && abi_of_ir iri = abi_of_c c then 1 else 0)
        (String.concat "," (List.map show_action plan)) runres
        (string_of_str iri.is_name) (show_ll iri.is_ret) (String.concat ";" (List.map show_ll iri.is_params))
    | _ -> ()) (read_lines stdin)
