(* Runs the extracted C19 literal model on a case file (stdin), one result line per case:
     S <hex>   text literal: source bytes after the opening double quote
               -> S <closed> <body hex> <rest code points> <scanner diags> <value hex> <parser diags>
     C <hex>   character literal: source bytes after the opening single quote
               -> C <closed> <body hex> <rest> <scanner diags> <value> <parser diags>
     I <text>  INT token literal      -> I <value> <diags>
     N <text>  NEGATE + INT token     -> N <value> <diags>
     F <text>  FLOAT token literal    -> F <ieee bits hex> <diags>
   ("-" stands for the empty byte string) *)
open C19_model
open Common

let rec pos_of_int i = if i = 1 then XH else if i land 1 = 0 then XO (pos_of_int (i / 2)) else XI (pos_of_int (i / 2))
let n_of_int i = if i = 0 then N0 else Npos (pos_of_int i)
let rec i64_of_pos = function
  | XH -> 1L
  | XO p -> Int64.mul 2L (i64_of_pos p)
  | XI p -> Int64.add (Int64.mul 2L (i64_of_pos p)) 1L
let i64_of_n = function N0 -> 0L | Npos p -> i64_of_pos p
let i64_of_z = function Z0 -> 0L | Zpos p -> i64_of_pos p | Zneg p -> Int64.neg (i64_of_pos p)

let bytes_of_hex h = if h = "-" then [] else List.map n_of_int (hex_decode h)
let hex_of_bytes l =
  if l = [] then "-" else String.concat "" (List.map (fun b -> Printf.sprintf "%02x" (Int64.to_int (i64_of_n b))) l)
let bytes_of_string s = List.init (String.length s) (fun i -> n_of_int (Char.code s.[i]))
let b2i b = if b then 1 else 0

let () =
  let out = Buffer.create (1 lsl 20) in
  List.iter (fun line ->
    match split_ws line with
    | ["S"; h] ->
      let o = lit_string (bytes_of_hex h) in
      if o.lo_bad then Buffer.add_string out "S !\n"
      else Buffer.add_string out (Printf.sprintf "S %d %s %Ld %Ld %s %Ld\n" (b2i o.lo_closed) (hex_of_bytes o.lo_body)
             (i64_of_n o.lo_rest) (i64_of_n o.lo_scan_errs) (hex_of_bytes o.lo_value) (i64_of_n o.lo_parse_errs))
    | ["C"; h] ->
      let o = lit_char (bytes_of_hex h) in
      Buffer.add_string out (Printf.sprintf "C %d %s %Ld %Ld %Ld %Ld\n" (b2i o.lo_closed) (hex_of_bytes o.lo_body)
             (i64_of_n o.lo_rest) (i64_of_n o.lo_scan_errs) (i64_of_z o.lo_char) (i64_of_n o.lo_parse_errs))
    | ["I"; s] ->
      let (v, e) = parse_int_lit (bytes_of_string s) in
      Buffer.add_string out (Printf.sprintf "I %Ld %Ld\n" (i64_of_n v) (i64_of_n e))
    | ["N"; s] ->
      let (v, e) = negate_int_lit (bytes_of_string s) in
      Buffer.add_string out (Printf.sprintf "N %Ld %Ld\n" (i64_of_z v) (i64_of_n e))
    | ["F"; s] ->
      let (f, e) = parse_float_lit (bytes_of_string s) in
      Buffer.add_string out (Printf.sprintf "F %016Lx %Ld\n" (i64_of_z (sf_bits f)) (i64_of_n e))
    | [] -> ()
    | _ -> Buffer.add_string out "?\n") (read_lines stdin);
  print_string (Buffer.contents out)
