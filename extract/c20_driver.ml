(* Runs the extracted C20 model on the same history file the Go harness (triex) consumes.
   Model-only lines:  PM <id> <ref> <list> <name-rank> <type-id>  (abstraction of a placeholder type) *)
open C20_model
open Common

let rec pos_of_int i = if i = 1 then XH else if i land 1 = 0 then XO (pos_of_int (i / 2)) else XI (pos_of_int (i / 2))
let n_of_int i = if i = 0 then N0 else Npos (pos_of_int i)
let rec int_of_pos = function XH -> 1 | XO p -> 2 * int_of_pos p | XI p -> 2 * int_of_pos p + 1
let int_of_n = function N0 -> 0 | Npos p -> int_of_pos p

let vocab : (int, tok) Hashtbl.t = Hashtbl.create 64
let keys fs = List.map (fun f -> Hashtbl.find vocab (int_of_string f)) fs

let show = function
  | Declared -> "D"
  | Rejected v -> Printf.sprintf "R %d" (int_of_n v)
  | Found None -> "F -"
  | Found (Some v) -> Printf.sprintf "F %d" (int_of_n v)
  | Matches None -> "M !"
  | Matches (Some l) -> String.concat " " ("M" :: List.map (fun v -> string_of_int (int_of_n v)) l)
  | PutDone -> "U"
  | ForkBegin -> "Y"
  | ForkEnd -> "Z"

(* history lines:  D <val> <keys..> | L <keys..> | S <keys..> | U <val> <keys..> (Put) | Y (fork begin) | Z (fork end)
   Y .. Z is one model operation Fork [..] (nesting allowed). A Y without a matching Z forks until the end of
   the history ("copy and continue on the copy"): its closing ForkEnd is not printed. A Z without a Y is a no-op
   that prints Z, as in triex. *)
type item = IOp of (tok, n) top | IY | IZ

(* the operations up to the matching Z, the remaining items, the number of forks left open at the end *)
let rec block items =
  match items with
  | [] -> ([], [], 1)
  | IZ :: rest -> ([], rest, 0)
  | IY :: rest ->
    let (inner, rest1, u1) = block rest in
    if u1 > 0 then ([Fork inner], [], u1 + 1)
    else let (ops, rest2, u2) = block rest1 in (Fork inner :: ops, rest2, u2)
  | IOp o :: rest -> let (ops, rest1, u) = block rest in (o :: ops, rest1, u)

let rec take n l = if n <= 0 then [] else match l with [] -> [] | x :: r -> x :: take (n - 1) r

let run_history items =
  let rec go t items =
    match items with
    | [] -> ()
    | IZ :: rest -> print_endline "Z"; go t rest
    | IOp o :: rest ->
      let (t', outs) = c20_step t o in
      List.iter (fun o -> print_endline (show o)) outs; go t' rest
    | IY :: rest ->
      let (inner, rest1, u) = block rest in
      let (t', outs) = c20_step t (Fork inner) in
      let outs = take (List.length outs - u) outs in
      List.iter (fun o -> print_endline (show o)) outs; go t' rest1 in
  go c20_empty items

let () =
  let lines = read_lines stdin in
  let cur = ref [] in
  let started = ref false in
  let flush () = run_history (List.rev !cur); cur := [] in
  List.iter (fun line ->
    match split_ws line with
    | "T" :: id :: tt :: rest ->
      let lit = match rest with [h] -> List.map n_of_int (hex_decode h) | _ -> [] in
      Hashtbl.replace vocab (int_of_string id) { tt = n_of_int (int_of_string tt); lit; ainfo = None }
    | ["PM"; id; r; l; name; tid] ->
      Hashtbl.replace vocab (int_of_string id)
        { tt = n_of_int 3; lit = []; ainfo = Some { t_ref = (r = "1"); t_list = (l = "1"); t_name = n_of_int (int_of_string name); t_id = n_of_int (int_of_string tid) } }
    | ["PN"; id] ->
      Hashtbl.replace vocab (int_of_string id) { tt = n_of_int 3; lit = []; ainfo = None }
    | ["Q"] ->
      let n = Hashtbl.length vocab in
      for i = 0 to n - 1 do
        let a = Hashtbl.find vocab i in
        let b = Buffer.create 16 and c = Buffer.create 16 in
        for j = 0 to n - 1 do
          let t = Hashtbl.find vocab j in
          Buffer.add_char b (if tok_eq a t then '1' else '0');
          Buffer.add_char c (if tok_less a t then '1' else '0')
        done;
        Printf.printf "E %d %s %s\n" i (Buffer.contents b) (Buffer.contents c)
      done
    | ["H"] -> if !started then flush (); started := true; print_endline "H"
    | ["Y"] -> cur := IY :: !cur
    | ["Z"] -> cur := IZ :: !cur
    | "D" :: v :: ks -> cur := IOp (Declare (keys ks, n_of_int (int_of_string v))) :: !cur
    | "U" :: v :: ks -> cur := IOp (Put (keys ks, n_of_int (int_of_string v))) :: !cur
    | "L" :: ks -> cur := IOp (Lookup (keys ks)) :: !cur
    | "S" :: ks -> cur := IOp (Search (keys ks)) :: !cur
    | _ -> ()) lines;
  if !started then flush ()
