(* Runs the extracted C20 model on the same history file the Go harness (triex) consumes.
   Model-only lines:  PM <id> <ref> <list> <name-rank> <type-id>  (abstraction of a placeholder type) *)
open C20_model
open Common

let rec pos_of_int i = if i = 1 then XH else if i land 1 = 0 then XO (pos_of_int (i / 2)) else XI (pos_of_int (i / 2))
let n_of_int i = if i = 0 then N0 else Npos (pos_of_int i)
let rec int_of_pos = function XH -> 1 | XO p -> 2 * int_of_pos p | XI p -> 2 * int_of_pos p + 1
let int_of_n = function N0 -> 0 | Npos p -> int_of_pos p

let vocab : (int, tok) Hashtbl.t = Hashtbl.create 64
let keys fs = List.map (fun f -> Hashtbl.find vocab (int_of_string f)) fs

let show = function
  | Declared -> "D"
  | Rejected v -> Printf.sprintf "R %d" (int_of_n v)
  | Found None -> "F -"
  | Found (Some v) -> Printf.sprintf "F %d" (int_of_n v)
  | Matches None -> "M !"
  | Matches (Some l) -> String.concat " " ("M" :: List.map (fun v -> string_of_int (int_of_n v)) l)

let () =
  let lines = read_lines stdin in
  let pre = ref [] and cur = ref [] and copied = ref false in
  let segment () =
    (* with a copy, the outputs of the prefix were already printed *)
    let outs = if !copied then c20_run_copy (List.rev !pre) (List.rev !cur) else c20_run (List.rev !cur) in
    List.iter (fun o -> print_endline (show o)) outs in
  let flush () = segment (); pre := []; cur := []; copied := false in
  let started = ref false in
  List.iter (fun line ->
    match split_ws line with
    | "T" :: id :: tt :: rest ->
      let lit = match rest with [h] -> List.map n_of_int (hex_decode h) | _ -> [] in
      Hashtbl.replace vocab (int_of_string id) { tt = n_of_int (int_of_string tt); lit; ainfo = None }
    | ["PM"; id; r; l; name; tid] ->
      Hashtbl.replace vocab (int_of_string id)
        { tt = n_of_int 3; lit = []; ainfo = Some { t_ref = (r = "1"); t_list = (l = "1"); t_name = n_of_int (int_of_string name); t_id = n_of_int (int_of_string tid) } }
    | ["PN"; id] ->
      Hashtbl.replace vocab (int_of_string id) { tt = n_of_int 3; lit = []; ainfo = None }
    | ["Q"] ->
      let n = Hashtbl.length vocab in
      for i = 0 to n - 1 do
        let a = Hashtbl.find vocab i in
        let b = Buffer.create 16 and c = Buffer.create 16 in
        for j = 0 to n - 1 do
          let t = Hashtbl.find vocab j in
          Buffer.add_char b (if tok_eq a t then '1' else '0');
          Buffer.add_char c (if tok_less a t then '1' else '0')
        done;
        Printf.printf "E %d %s %s\n" i (Buffer.contents b) (Buffer.contents c)
      done
    | ["H"] -> if !started then flush (); started := true; print_endline "H"
    | ["Y"] ->
      (* outputs of the prefix first, then continue on the copy *)
      segment ();
      pre := !cur @ !pre; cur := []; copied := true; print_endline "Y"
    | "D" :: v :: ks -> cur := Declare (keys ks, n_of_int (int_of_string v)) :: !cur
    | "L" :: ks -> cur := Lookup (keys ks) :: !cur
    | "S" :: ks -> cur := Search (keys ks) :: !cur
    | _ -> ()) lines;
  if !started then flush ()
