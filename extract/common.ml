(* conversions between OCaml ints/strings and the extracted inductive numbers; model-independent
   (each driver re-binds the constructors of its own extracted module through these functors) *)
let split_ws s = List.filter (fun x -> x <> "") (String.split_on_char ' ' s)
let read_lines ic =
  let rec go acc = match input_line ic with l -> go (l :: acc) | exception End_of_file -> List.rev acc in
  go []
let hex_decode s =
  let n = String.length s / 2 in
  List.init n (fun i -> int_of_string ("0x" ^ String.sub s (2 * i) 2))
