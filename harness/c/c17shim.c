/* C17 driver supervisor: lets one compiled DDP driver run many cases although a Laufzeitfehler ends the
   process.  The DDP program calls c17_naechster(n) before every work item; the first call turns the
   process into a supervisor that forks a worker; the worker processes items sequentially and publishes
   its progress in shared memory.  When the worker dies, the supervisor prints one marker line for the
   item it died in ("\x01E <exit code>" / "\x01S <signal>" / "\x01T" for the per-item alarm) and forks a
   new worker for the remaining items; after $C17_DEATHS (default 100) dead workers or 3 items that hit the per-item limit of 5 s CPU time it prints "\x01X" and stops
   (the remaining items are reported as not run).  Nothing here touches the values under test. */
#include <stdint.h>
#include <stdio.h>
#include <stdlib.h>
#include <signal.h>
#include <unistd.h>
#include <sys/mman.h>
#include <sys/time.h>
#include <sys/wait.h>

static volatile int64_t *shared = NULL;
static int in_worker = 0;
static int started = 0;

int64_t c17_naechster(int64_t n) {
	if (!in_worker) {
		shared = mmap(NULL, 4096, PROT_READ | PROT_WRITE, MAP_SHARED | MAP_ANONYMOUS, -1, 0);
		if (shared == MAP_FAILED) {
			perror("mmap");
			_exit(99);
		}
		shared[0] = 0;
		long deaths = 0, budget = 100, timeouts = 0;
		const char *bs = getenv("C17_DEATHS");
		if (bs && *bs) budget = atol(bs);
		for (;;) {
			fflush(stdout);
			fflush(stderr);
			if (shared[0] >= n) {
				_exit(0);
			}
			pid_t pid = fork();
			if (pid < 0) {
				perror("fork");
				_exit(98);
			}
			if (pid == 0) {
				in_worker = 1;
				break;
			}
			int st = 0;
			waitpid(pid, &st, 0);
			if (WIFEXITED(st) && WEXITSTATUS(st) == 0 && shared[0] >= n) {
				_exit(0);
			}
			if (WIFSIGNALED(st) && (WTERMSIG(st) == SIGALRM || WTERMSIG(st) == SIGPROF)) {
				printf("\n\001T\n");
				timeouts++;
			} else if (WIFSIGNALED(st)) {
				printf("\n\001S %d\n", WTERMSIG(st));
			} else {
				printf("\n\001E %d\n", WEXITSTATUS(st));
			}
			shared[0]++;
			if (++deaths >= budget || timeouts >= 3) { /* the remaining items are reported as not run */
				printf("\001X\n");
				fflush(stdout);
				_exit(0);
			}
		}
	}
	if (started) {
		fflush(stdout);
		shared[0]++; /* the previous item completed */
	}
	started = 1;
	if (shared[0] >= n) {
		fflush(stdout);
		_exit(0);
	}
	/* per-item limit: 5 s of CPU time (the machine may be heavily loaded), 120 s of wall time as a backstop */
	struct itimerval tv = {{0, 0}, {5, 0}};
	setitimer(ITIMER_PROF, &tv, NULL);
	alarm(120);
	return shared[0];
}
