// rtdrive — history driver over the text runtime of the current tree (libddpruntime.a), for C12.
// Reads a line-based case file on stdin (same file as extract/c12_driver.ml) and prints one result
// line per operation:
//   H                 new history: four text registers, all empty
//   L r hex|-         r := literal with these UTF-8 bytes      (ddp_string_from_constant)
//   C r a             r := copy of a                           (ddp_deep_copy_string)
//   K r a b           r := a verkettet b                       (copy a; ddp_string_string_verkettet)
//   S r a c           r := a verkettet Buchstabe c             (copy a; ddp_string_char_verkettet)
//   P r c a           r := Buchstabe c verkettet a             (copy a; ddp_char_string_verkettet)
//   X r a i j         r := a im Bereich von i bis j            (ddp_string_slice)
//   T r c             r := c als Text                          (ddp_char_to_string)
//   M r               r := the empty Text that owns a buffer, {"\0", 1}, as the C producers of the stdlib
//                     return it (env.c, string_builder.c, filesystem.c, strings.c: cap = strlen + 1)
//   R r c i           r an der Stelle i ist c                  (ddp_replace_char_in_string)
//   I a i             a an der Stelle i                        (ddp_string_index)
//   N a               Länge von a                              (ddp_string_length)
//   Q a b             a gleich b                               (ddp_string_equal)
//   F a               Für jeden Buchstaben in a                (transcription of the loop compiler.go emits,
//                                                               around the real utf8_string_to_char)
//   W a               Schreibe den Text a                      (bytes printf("%s") would print)
// outside histories:
//   U lo hi           every ddpchar in lo..hi: char_to_string, num_bytes_char, num_bytes, string_to_char
//   D lead n lo hi    every n-byte sequence lead,b2..bn with the continuation bytes taken from lo..hi
//   V hex             one byte string: utf8_strlen, utf8_num_bytes, utf8_indicated_num_bytes, string_to_char
//   Z z               Zahl als Buchstabe als Zahl (C casts int64 -> int32 -> int64)
// Result lines:  "= cap hex" (state of the target register), "i n", "b 0|1", "l c,c,..", "w hex",
// "E" (Laufzeitfehler; the history ends), "STUCK" (iteration would not terminate; the history ends).
// With argument "fork" every history runs in a child process; a child that dies prints "!exit n" / "!sig n".
// With argument "flush" stdout is flushed after every line (the caller restarts after a sanitizer abort).
#define _GNU_SOURCE
#include "DDP/ddpmemory.h"
#include "DDP/ddptypes.h"
#include "DDP/utf8/utf8.h"
#include <locale.h>
#include <setjmp.h>
#include <stdarg.h>
#include <stdint.h>
#include <stdio.h>
#include <stdlib.h>
#include <string.h>
#include <sys/wait.h>
#include <unistd.h>

ddpint ddp_string_length(ddpstring *str);
ddpchar ddp_string_index(ddpstring *str, ddpint index);
void ddp_replace_char_in_string(ddpstring *str, ddpchar ch, ddpint index);
void ddp_string_slice(ddpstring *ret, ddpstring *str, ddpint index1, ddpint index2);
void ddp_string_string_verkettet(ddpstring *ret, ddpstring *str1, ddpstring *str2);
void ddp_char_string_verkettet(ddpstring *ret, ddpchar c, ddpstring *str);
void ddp_string_char_verkettet(ddpstring *ret, ddpstring *str, ddpchar c);
void ddp_char_to_string(ddpstring *ret, ddpchar c);
ddpbool ddp_string_equal(ddpstring *str1, ddpstring *str2);

static jmp_buf on_error;
static int armed = 0;
// linked with -Wl,--wrap=ddp_runtime_error: a Laufzeitfehler returns to the driver
void __wrap_ddp_runtime_error(int exit_code, const char *fmt, ...) {
	(void)fmt;
	if (armed) longjmp(on_error, exit_code ? exit_code : 1);
	exit(exit_code);
}

#define NREG 4
static ddpstring reg[NREG];

static void hexout(const unsigned char *p, long n) {
	if (n <= 0) { fputs("-", stdout); return; }
	for (long i = 0; i < n; i++) printf("%02x", p[i]);
}
static void show(ddpstring *s) {
	printf("= %lld ", (long long)s->cap);
	if (s->str == NULL) fputs("-", stdout); else hexout((unsigned char *)s->str, s->cap);
	putchar('\n');
}
static int unhex(const char *h, unsigned char *out) {
	int n = 0;
	if (h[0] == '-') return 0;
	for (; h[0] && h[1]; h += 2) { unsigned v; sscanf(h, "%2x", &v); out[n++] = (unsigned char)v; }
	return n;
}
static void setreg(int r, ddpstring v) {
	ddp_free_string(&reg[r]);
	reg[r] = v;
}
static void reset(void) {
	for (int i = 0; i < NREG; i++) { ddp_free_string(&reg[i]); reg[i] = (ddpstring){NULL, 0}; }
}

// returns 0 to continue, 1 when the history is over
static int do_op(char *line) {
	char op = line[0];
	long long a = 0, b = 0, c = 0, d = 0;
	char hex[1 << 14];
	ddpstring ret = {NULL, 0}, tmp = {NULL, 0};
	volatile int code = 0;
	armed = 1;
	if ((code = setjmp(on_error)) != 0) {
		armed = 0;
		puts("E");
		return 1;
	}
	switch (op) {
	case 'L': {
		sscanf(line + 1, "%lld %16383s", &a, hex);
		unsigned char buf[1 << 13];
		int n = unhex(hex, buf);
		buf[n] = 0;
		ddp_string_from_constant(&ret, (char *)buf);
		setreg(a, ret); show(&reg[a]);
		break;
	}
	case 'C':
		sscanf(line + 1, "%lld %lld", &a, &b);
		ddp_deep_copy_string(&ret, &reg[b]);
		setreg(a, ret); show(&reg[a]);
		break;
	case 'K':
		sscanf(line + 1, "%lld %lld %lld", &a, &b, &c);
		ddp_deep_copy_string(&tmp, &reg[b]);
		ddp_string_string_verkettet(&ret, &tmp, &reg[c]);
		setreg(a, ret); show(&reg[a]);
		break;
	case 'S':
		sscanf(line + 1, "%lld %lld %lld", &a, &b, &c);
		ddp_deep_copy_string(&tmp, &reg[b]);
		ddp_string_char_verkettet(&ret, &tmp, (ddpchar)c);
		setreg(a, ret); show(&reg[a]);
		break;
	case 'P':
		sscanf(line + 1, "%lld %lld %lld", &a, &c, &b);
		ddp_deep_copy_string(&tmp, &reg[b]);
		ddp_char_string_verkettet(&ret, (ddpchar)c, &tmp);
		setreg(a, ret); show(&reg[a]);
		break;
	case 'X':
		sscanf(line + 1, "%lld %lld %lld %lld", &a, &b, &c, &d);
		ddp_string_slice(&ret, &reg[b], c, d);
		setreg(a, ret); show(&reg[a]);
		break;
	case 'T':
		sscanf(line + 1, "%lld %lld", &a, &c);
		ddp_char_to_string(&ret, (ddpchar)c);
		setreg(a, ret); show(&reg[a]);
		break;
	case 'M':
		sscanf(line + 1, "%lld", &a);
		ret.cap = 1;
		ret.str = ddp_reallocate(NULL, 0, 1);
		ret.str[0] = '\0';
		setreg(a, ret); show(&reg[a]);
		break;
	case 'R':
		sscanf(line + 1, "%lld %lld %lld", &a, &c, &d);
		ddp_replace_char_in_string(&reg[a], (ddpchar)c, d);
		show(&reg[a]);
		break;
	case 'I':
		sscanf(line + 1, "%lld %lld", &a, &d);
		printf("i %lld\n", (long long)ddp_string_index(&reg[a], d));
		break;
	case 'N':
		sscanf(line + 1, "%lld", &a);
		printf("i %lld\n", (long long)ddp_string_length(&reg[a]));
		break;
	case 'Q':
		sscanf(line + 1, "%lld %lld", &a, &b);
		printf("b %d\n", ddp_string_equal(&reg[a], &reg[b]) ? 1 : 0);
		break;
	case 'F': {
		// VisitForRangeStmt: skipped when cap == 0; iter_ptr from str to str + cap - 1 (!=),
		// utf8_string_to_char decodes, all-ones result = runtime error, pointer advances by the result
		sscanf(line + 1, "%lld", &a);
		ddpstring *in = &reg[a];
		static char acc[1 << 16];
		size_t used = 0;
		acc[0] = 0;
		if (in->cap != 0) {
			char *it = in->str, *end = in->str + in->cap - 1;
			int first = 1;
			while (it != end) {
				uint32_t ch = 0;
				size_t n = utf8_string_to_char(it, &ch);
				if (n == (size_t)-1) ddp_runtime_error(1, "invalid utf8");
				if (n == 0) { armed = 0; puts("STUCK"); return 1; }
				if (used + 32 < sizeof acc) used += (size_t)sprintf(acc + used, "%s%lld", first ? " " : ",", (long long)(ddpchar)ch);
				first = 0;
				it += n;
			}
		}
		printf("l%s\n", acc);
		break;
	}
	case 'W':
		sscanf(line + 1, "%lld", &a);
		fputs("w ", stdout);
		if (reg[a].str) hexout((unsigned char *)reg[a].str, (long)strlen(reg[a].str)); else fputs("-", stdout);
		putchar('\n');
		break;
	default:
		break;
	}
	armed = 0;
	return 0;
}

static void scalars(long long lo, long long hi) {
	for (long long c = lo; c <= hi; c++) {
		ddpstring s;
		ddp_char_to_string(&s, (ddpchar)c);
		printf("u %lld %lld ", c, (long long)s.cap);
		hexout((unsigned char *)s.str, s.cap);
		printf(" %lld", (long long)(ssize_t)utf8_num_bytes_char((uint32_t)(ddpchar)c));
		uint32_t out = 0xFFFFFFFFu;
		size_t n = utf8_string_to_char(s.str, &out);
		printf(" %lld ", (long long)(ssize_t)n);
		if (out == 0xFFFFFFFFu) fputs("-", stdout); else printf("%lld", (long long)(ddpchar)out);
		printf(" %lld\n", (long long)(int64_t)(ddpchar)(int64_t)c);
		ddp_free_string(&s);
	}
}

static void decode_one(unsigned char *buf, int n) {
	fputs("d ", stdout);
	hexout(buf, n);
	uint32_t out = 0xFFFFFFFFu;
	size_t k = utf8_string_to_char((char *)buf, &out);
	printf(" %lld ", (long long)(ssize_t)k);
	if (out == 0xFFFFFFFFu) fputs("-", stdout); else printf("%lld", (long long)(ddpchar)out);
	printf(" %lld %d\n", (long long)utf8_strlen((char *)buf), utf8_indicated_num_bytes((char)buf[0]));
}

static void sequences(int lead, int n, int lo, int hi) {
	unsigned char buf[8] = {0};
	buf[0] = (unsigned char)lead;
	int idx[4] = {0, lo, lo, lo};
	for (;;) {
		for (int k = 1; k < n; k++) buf[k] = (unsigned char)idx[k];
		buf[n] = 0;
		decode_one(buf, n);
		int k = n - 1;
		while (k >= 1 && idx[k] == hi) { idx[k] = lo; k--; }
		if (k < 1) break;
		idx[k]++;
	}
}

int main(int argc, char **argv) {
	int use_fork = argc > 1 && strcmp(argv[1], "fork") == 0;
	int use_flush = argc > 1 && strcmp(argv[1], "flush") == 0; // a sanitizer abort must not lose finished lines
	setlocale(LC_ALL, "de_DE.UTF-8"); // what ddp_init_runtime does (the link-time shim maps it to C.utf8)
	// the whole input is read before the first fork, so parent and child never share a read position
	size_t capacity = 1 << 20, used = 0;
	char *input = malloc(capacity);
	for (;;) {
		if (used + (1 << 16) + 1 > capacity) input = realloc(input, capacity *= 2);
		size_t k = fread(input + used, 1, 1 << 16, stdin);
		if (k == 0) break;
		used += k;
	}
	input[used] = 0;
	int dead = 1; // before the first H
	int in_child = 0;
	setvbuf(stdout, NULL, _IOFBF, 1 << 16);
	char *next = input;
	while (next < input + used) {
		char *line = next;
		char *nl = strchr(line, '\n');
		if (nl) { *nl = 0; next = nl + 1; } else next = input + used;
		size_t l = strlen(line);
		while (l && line[l - 1] == '\r') line[--l] = 0;
		if (line[0] == 'H') {
			if (in_child) { fflush(stdout); _exit(0); }
			puts("H");
			if (use_fork) {
				fflush(stdout);
				pid_t child = fork();
				if (child == 0) { in_child = 1; dead = 0; continue; }
				int st = 0;
				waitpid(child, &st, 0);
				if (WIFSIGNALED(st)) printf("!sig %d\n", WTERMSIG(st));
				else if (WEXITSTATUS(st) != 0) printf("!exit %d\n", WEXITSTATUS(st));
				dead = 1; // the parent skips the lines the child has executed
				continue;
			}
			reset();
			dead = 0;
			if (use_flush) fflush(stdout);
			continue;
		}
		if (dead && in_child) continue;
		if (!in_child) {
			if (line[0] == 'U') { long long lo, hi; sscanf(line + 1, "%lld %lld", &lo, &hi); scalars(lo, hi); continue; }
			if (line[0] == 'D') { int lead, n, lo, hi; sscanf(line + 1, "%d %d %d %d", &lead, &n, &lo, &hi); sequences(lead, n, lo, hi); continue; }
			if (line[0] == 'V') { unsigned char buf[1 << 13]; int n = unhex(line + 2, buf); buf[n] = 0; decode_one(buf, n); continue; }
			if (line[0] == 'Z') { long long z; sscanf(line + 1, "%lld", &z); printf("z %lld\n", (long long)(int64_t)(ddpchar)(int64_t)z); continue; }
		}
		if (dead) continue;
		if (do_op(line)) dead = 1;
		if (in_child || use_flush) fflush(stdout);
	}
	if (in_child) { fflush(stdout); _exit(0); }
	reset();
	return 0;
}
