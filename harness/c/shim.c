// Link-time shims used by the verification harness (nothing here is part of /repo).
//  --wrap=setlocale : the sandbox has no de_DE.UTF-8 locale; map any UTF-8 request to C.utf8
//  --wrap=ddp_reallocate : allocation ledger (ptr, oldSize, newSize, result) to the file in $DDP_LEDGER
#define _GNU_SOURCE
#include <locale.h>
#include <stdio.h>
#include <stdlib.h>
#include <string.h>
#include <stddef.h>
char *__real_setlocale(int category, const char *locale);
char *__wrap_setlocale(int category, const char *locale) {
	char *r = __real_setlocale(category, locale);
	if (r == NULL && locale != NULL && (strstr(locale, "UTF-8") || strstr(locale, "utf8"))) {
		r = __real_setlocale(category, "C.utf8");
		if (r == NULL) r = __real_setlocale(category, "C.UTF-8");
	}
	return r;
}
void *__real_ddp_reallocate(void *pointer, size_t oldSize, size_t newSize);
static FILE *ledger = NULL;
static int ledger_init = 0;
void *__wrap_ddp_reallocate(void *pointer, size_t oldSize, size_t newSize) {
	if (!ledger_init) {
		ledger_init = 1;
		const char *p = getenv("DDP_LEDGER");
		if (p && *p) ledger = fopen(p, "w");
	}
	void *r = __real_ddp_reallocate(pointer, oldSize, newSize);
	if (ledger) { fprintf(ledger, "%p %zu %zu %p\n", pointer, oldSize, newSize, r); fflush(ledger); }
	return r;
}
