// callx: call-resolution dumper for C09. Reads one JSON request per line on stdin:
//
//	{"id": "...", "file": "/abs/path.ddp", "src": "<optional source text>"}
//
// parses the file with parser.Parse, walks the AST of the MAIN module (ast.VisitModule) and answers
// one JSON line: every FuncCall / StructLiteral (position, resolved declaration name + module file,
// generic parent and instantiated parameter types, whether the alias wrapped it in a logical NOT,
// and the Args map: parameter name -> kind and source range of the bound expression) and every
// operator expression (operator, operand ranges, OverloadedBy declaration + its Args map).
// Diagnostics are reported as (code, level, line, col) only.
package main

import (
	"bufio"
	"encoding/json"
	"fmt"
	"os"
	"reflect"
	"sort"
	"strings"

	"github.com/DDP-Projekt/Kompilierer/src/ast"
	"github.com/DDP-Projekt/Kompilierer/src/ddperror"
	"github.com/DDP-Projekt/Kompilierer/src/ddptypes"
	"github.com/DDP-Projekt/Kompilierer/src/parser"
	"github.com/DDP-Projekt/Kompilierer/src/scanner"
	"github.com/DDP-Projekt/Kompilierer/src/token"
)

type Req struct {
	ID        string   `json:"id"`
	File      string   `json:"file"`
	Src       *string  `json:"src"`
	Scan      []string `json:"scan"`       // texts to tokenise with scanner.Scan (no parse)
	ScanAlias []string `json:"scan_alias"` // alias patterns to tokenise with scanner.ScanAlias (no parse)
	Decls     bool     `json:"decls"`      // also dump every function declaration reachable from the module
}

type Tok struct {
	T int    `json:"t"`
	L string `json:"l"`
	C uint   `json:"c"` // start column (1-based), 0 for alias dumps
	E uint   `json:"e"` // end column (one past the last character)
}

type AliasDump struct {
	Toks    []Tok  `json:"toks"`
	Negated bool   `json:"neg"`
	Orig    string `json:"orig"`
}

type ParamDump struct {
	Name    string `json:"name"`
	Type    string `json:"type"`  // GetUnderlying(type).String(): what tokenLess orders by
	Ref     bool   `json:"ref"`
	List    bool   `json:"list"`
	Generic bool   `json:"generic"` // ddptypes.IsGeneric: what sortAliases counts
}

type DeclDump struct {
	Name     string      `json:"name"`
	Mod      string      `json:"mod"`
	Generic  bool        `json:"generic"`
	Public   bool        `json:"public"`
	Operator string      `json:"operator,omitempty"`
	Params   []ParamDump `json:"params"`
	Aliases  []AliasDump `json:"aliases"`
}

type Diag struct {
	Code  int    `json:"code"`
	Level int    `json:"level"`
	Line  uint   `json:"line"`
	Col   uint   `json:"col"`
	File  string `json:"file"`
	Msg   string `json:"msg"`
}

type Arg struct {
	Kind string `json:"kind"`
	SL   uint   `json:"sl"`
	SC   uint   `json:"sc"`
	EL   uint   `json:"el"`
	EC   uint   `json:"ec"`
	Text string `json:"text"`
}

type Call struct {
	What    string            `json:"what"` // call | struct
	Line    uint              `json:"line"`
	Col     uint              `json:"col"`
	EL      uint              `json:"el"`
	EC      uint              `json:"ec"`
	Fn      string            `json:"fn"`
	Mod     string            `json:"mod"`
	Generic string            `json:"generic,omitempty"` // name of the generic parent declaration
	PTypes  []string          `json:"ptypes,omitempty"`  // parameter types of the resolved declaration (name:type[&])
	Neg     bool              `json:"neg"`
	Args    map[string]Arg    `json:"args"`
	Nil     bool              `json:"nilfunc,omitempty"`
}

type Op struct {
	Kind     string         `json:"kind"` // unary | binary | ternary | cast
	Op       string         `json:"op"`
	Line     uint           `json:"line"`
	Col      uint           `json:"col"`
	Operands []Arg          `json:"operands"`
	Overload string         `json:"overload,omitempty"`
	OMod     string         `json:"omod,omitempty"`
	OGeneric string         `json:"ogeneric,omitempty"`
	OArgs    map[string]Arg `json:"oargs,omitempty"`
	Target   string         `json:"target,omitempty"`
}

type Resp struct {
	ID     string `json:"id"`
	Panic  string `json:"panic,omitempty"`
	Err    string `json:"err,omitempty"`
	Nil    bool   `json:"nil_module"`
	Faulty bool   `json:"faulty"`
	Diags  []Diag `json:"diags"`
	Calls  []Call `json:"calls"`
	Ops    []Op   `json:"ops"`
	Decls  []DeclDump `json:"decls,omitempty"`
	Scans  [][]Tok    `json:"scans,omitempty"`
	Optab  map[string][]string `json:"optab,omitempty"` // operator -> overloading declarations in table order
}

type walker struct {
	lines   [][]rune
	calls   []Call
	ops     []Op
	negated map[*ast.FuncCall]bool
}

func (*walker) Visitor() {}

func (w *walker) text(r token.Range) string {
	// End is the position of the last character + 1 column (scanner convention)
	if r.Start.Line == 0 || int(r.Start.Line) > len(w.lines) || r.End.Line < r.Start.Line {
		return ""
	}
	var sb strings.Builder
	for l := r.Start.Line; l <= r.End.Line && int(l) <= len(w.lines); l++ {
		ln := w.lines[l-1]
		from, to := 0, len(ln)
		if l == r.Start.Line {
			from = int(r.Start.Column) - 1
		}
		if l == r.End.Line {
			to = int(r.End.Column) - 1
		}
		if from < 0 {
			from = 0
		}
		if to > len(ln) {
			to = len(ln)
		}
		if from < to {
			sb.WriteString(string(ln[from:to]))
		}
		if l != r.End.Line {
			sb.WriteByte('\n')
		}
	}
	return sb.String()
}

func (w *walker) arg(e ast.Expression) Arg {
	if e == nil || (reflect.ValueOf(e).Kind() == reflect.Ptr && reflect.ValueOf(e).IsNil()) {
		return Arg{Kind: "nil"}
	}
	r := e.GetRange()
	k := strings.TrimPrefix(reflect.TypeOf(e).String(), "*ast.")
	return Arg{Kind: k, SL: r.Start.Line, SC: r.Start.Column, EL: r.End.Line, EC: r.End.Column, Text: w.text(r)}
}

func (w *walker) args(m map[string]ast.Expression) map[string]Arg {
	out := make(map[string]Arg, len(m))
	for k, v := range m {
		out[k] = w.arg(v)
	}
	return out
}

func declInfo(f *ast.FuncDecl) (name, mod, generic string, ptypes []string) {
	if f == nil {
		return "", "", "", nil
	}
	name = f.Name()
	if f.Mod != nil {
		mod = f.Mod.FileName
	}
	if f.GenericInstantiation != nil && f.GenericInstantiation.GenericDecl != nil {
		generic = f.GenericInstantiation.GenericDecl.Name()
		if f.GenericInstantiation.GenericDecl.Mod != nil {
			mod = f.GenericInstantiation.GenericDecl.Mod.FileName
		}
	}
	for _, p := range f.Parameters {
		s := p.Name.Literal + ":"
		if p.Type.Type != nil {
			s += p.Type.Type.String()
		} else {
			s += "?"
		}
		if p.Type.IsReference {
			s += "&"
		}
		ptypes = append(ptypes, s)
	}
	return
}

func (w *walker) VisitUnaryExpr(e *ast.UnaryExpr) ast.VisitResult {
	if e.Operator == ast.UN_NOT {
		if fc, ok := e.Rhs.(*ast.FuncCall); ok && fc != nil && fc.Range == e.Range && e.Tok.Range == fc.Tok.Range {
			w.negated[fc] = true
			return ast.VisitRecurse
		}
	}
	o := Op{Kind: "unary", Op: e.Operator.String(), Line: e.Range.Start.Line, Col: e.Range.Start.Column, Operands: []Arg{w.arg(e.Rhs)}}
	w.overload(&o, e.OverloadedBy)
	w.ops = append(w.ops, o)
	return ast.VisitRecurse
}

func (w *walker) overload(o *Op, ov *ast.OperatorOverload) {
	if ov == nil {
		return
	}
	o.Overload, o.OMod, o.OGeneric, _ = declInfo(ov.Decl)
	o.OArgs = w.args(ov.Args)
}

func (w *walker) VisitBinaryExpr(e *ast.BinaryExpr) ast.VisitResult {
	o := Op{Kind: "binary", Op: e.Operator.String(), Line: e.Range.Start.Line, Col: e.Range.Start.Column, Operands: []Arg{w.arg(e.Lhs), w.arg(e.Rhs)}}
	w.overload(&o, e.OverloadedBy)
	w.ops = append(w.ops, o)
	return ast.VisitRecurse
}

func (w *walker) VisitTernaryExpr(e *ast.TernaryExpr) ast.VisitResult {
	o := Op{Kind: "ternary", Op: e.Operator.String(), Line: e.Range.Start.Line, Col: e.Range.Start.Column, Operands: []Arg{w.arg(e.Lhs), w.arg(e.Mid), w.arg(e.Rhs)}}
	w.overload(&o, e.OverloadedBy)
	w.ops = append(w.ops, o)
	return ast.VisitRecurse
}

func (w *walker) VisitCastExpr(e *ast.CastExpr) ast.VisitResult {
	o := Op{Kind: "cast", Op: "als", Line: e.Range.Start.Line, Col: e.Range.Start.Column, Operands: []Arg{w.arg(e.Lhs)}}
	if e.TargetType != nil {
		o.Target = e.TargetType.String()
	}
	w.overload(&o, e.OverloadedBy)
	w.ops = append(w.ops, o)
	return ast.VisitRecurse
}

func (w *walker) VisitFuncCall(e *ast.FuncCall) ast.VisitResult {
	c := Call{What: "call", Line: e.Range.Start.Line, Col: e.Range.Start.Column, EL: e.Range.End.Line, EC: e.Range.End.Column, Neg: w.negated[e], Args: w.args(e.Args)}
	if e.Func == nil {
		c.Nil = true
		c.Fn = e.Name
	} else {
		c.Fn, c.Mod, c.Generic, c.PTypes = declInfo(e.Func)
	}
	w.calls = append(w.calls, c)
	return ast.VisitRecurse
}

func (w *walker) VisitStructLiteral(e *ast.StructLiteral) ast.VisitResult {
	c := Call{What: "struct", Line: e.Range.Start.Line, Col: e.Range.Start.Column, EL: e.Range.End.Line, EC: e.Range.End.Column, Args: w.args(e.Args)}
	if e.Struct != nil {
		c.Fn = e.Struct.Name()
		if e.Struct.Mod != nil {
			c.Mod = e.Struct.Mod.FileName
		}
	} else {
		c.Nil = true
	}
	if e.Type != nil {
		c.PTypes = []string{e.Type.String()}
	}
	w.calls = append(w.calls, c)
	return ast.VisitRecurse
}

type declWalker struct{ out []DeclDump }

func (*declWalker) Visitor() {}

func (d *declWalker) VisitFuncDecl(f *ast.FuncDecl) ast.VisitResult {
	dd := DeclDump{Name: f.Name(), Generic: ast.IsGeneric(f), Public: f.IsPublic}
	if f.Mod != nil {
		dd.Mod = f.Mod.FileName
	}
	if f.Operator != nil {
		dd.Operator = f.Operator.String()
	}
	for _, p := range f.Parameters {
		pd := ParamDump{Name: p.Name.Literal, Ref: p.Type.IsReference}
		if p.Type.Type != nil {
			pd.Type = ddptypes.GetUnderlying(p.Type.Type).String()
			pd.List = ddptypes.IsList(p.Type.Type)
			pd.Generic = ddptypes.IsGeneric(p.Type.Type)
		}
		dd.Params = append(dd.Params, pd)
	}
	for _, a := range f.Aliases {
		ad := AliasDump{Negated: a.Negated, Orig: a.Original.Literal}
		for _, t := range a.Tokens {
			ad.Toks = append(ad.Toks, Tok{T: int(t.Type), L: t.Literal})
		}
		dd.Aliases = append(dd.Aliases, ad)
	}
	d.out = append(d.out, dd)
	return ast.VisitRecurse
}

func scanTexts(r Req) (resp Resp) {
	resp.ID = r.ID
	defer func() {
		if rec := recover(); rec != nil {
			resp.Panic = fmt.Sprint(rec)
		}
	}()
	conv := func(ts []token.Token) []Tok {
		out := make([]Tok, 0, len(ts))
		for _, t := range ts {
			out = append(out, Tok{T: int(t.Type), L: t.Literal, C: t.Range.Start.Column, E: t.Range.End.Column})
		}
		return out
	}
	bad := func(e ddperror.Error) {
		resp.Diags = append(resp.Diags, Diag{Code: int(e.Code), Level: int(e.Level), Line: e.Range.Start.Line, Col: e.Range.Start.Column, Msg: e.Msg})
	}
	for _, txt := range r.Scan {
		ts, err := scanner.Scan(scanner.Options{FileName: "scan.ddp", Source: []byte(txt), ErrorHandler: bad, ScannerMode: scanner.ModeNone})
		if err != nil {
			resp.Err = err.Error()
		}
		resp.Scans = append(resp.Scans, conv(ts))
	}
	for _, txt := range r.ScanAlias {
		ts, err := scanner.ScanAlias(token.Token{Type: token.STRING, Literal: "\"" + txt + "\""}, bad)
		if err != nil {
			resp.Err = err.Error()
		}
		resp.Scans = append(resp.Scans, conv(ts))
	}
	return
}

func once(r Req) (resp Resp) {
	if r.Scan != nil || r.ScanAlias != nil {
		return scanTexts(r)
	}
	resp.ID = r.ID
	var src []byte
	if r.Src != nil {
		src = []byte(*r.Src)
	} else {
		src, _ = os.ReadFile(r.File)
	}
	var raw []ddperror.Error
	var mod *ast.Module
	func() {
		defer func() {
			if rec := recover(); rec != nil {
				resp.Panic = fmt.Sprint(rec)
				if len(resp.Panic) > 600 {
					resp.Panic = resp.Panic[:600]
				}
			}
		}()
		opts := parser.Options{FileName: r.File, Modules: map[string]*ast.Module{}, ErrorHandler: func(e ddperror.Error) { raw = append(raw, e) }}
		if r.Src != nil {
			opts.Source = src
		}
		m, err := parser.Parse(opts)
		if err != nil {
			resp.Err = err.Error()
		}
		mod = m
	}()
	for _, e := range raw {
		msg := e.Msg
		if len(msg) > 160 {
			msg = msg[:160]
		}
		resp.Diags = append(resp.Diags, Diag{Code: int(e.Code), Level: int(e.Level), Line: e.Range.Start.Line, Col: e.Range.Start.Column, File: e.File, Msg: msg})
	}
	if mod == nil {
		resp.Nil = true
		return
	}
	resp.Faulty = mod.Ast.Faulty
	w := &walker{negated: map[*ast.FuncCall]bool{}}
	for _, l := range strings.Split(string(src), "\n") {
		w.lines = append(w.lines, []rune(strings.TrimSuffix(l, "\r")))
	}
	func() {
		defer func() {
			if rec := recover(); rec != nil {
				resp.Panic = "walk: " + fmt.Sprint(rec)
			}
		}()
		ast.VisitModule(mod, w)
	}()
	sort.SliceStable(w.calls, func(i, j int) bool {
		if w.calls[i].Line != w.calls[j].Line {
			return w.calls[i].Line < w.calls[j].Line
		}
		return w.calls[i].Col < w.calls[j].Col
	})
	resp.Calls, resp.Ops = w.calls, w.ops
	if len(mod.Operators) > 0 {
		resp.Optab = map[string][]string{}
		for op, decls := range mod.Operators {
			for _, d := range decls {
				resp.Optab[op.String()] = append(resp.Optab[op.String()], d.Name())
			}
		}
	}
	if r.Decls {
		dw := &declWalker{}
		ast.VisitModuleRec(mod, dw)
		resp.Decls = dw.out
	}
	return
}

func main() {
	in := bufio.NewScanner(os.Stdin)
	in.Buffer(make([]byte, 1<<20), 1<<28)
	out := bufio.NewWriter(os.Stdout)
	defer out.Flush()
	for in.Scan() {
		var r Req
		if err := json.Unmarshal(in.Bytes(), &r); err != nil {
			continue
		}
		b, _ := json.Marshal(once(r))
		out.Write(b)
		out.WriteByte('\n')
		out.Flush()
	}
}
