// cellx: frontend observer for the operator/type-cell programs of C02.
//
// Reads one JSON request per line: {"id": "...", "file": "/abs/name.ddp", "src": "<program>"} and answers one
// JSON line with what parser.Parse (scanner, parser, resolver, type checker of /repo) observably decided:
//
//	err/panic/faulty      returned error, recovered panic, Ast.Faulty
//	diags                 every delivered diagnostic: code, level, start line
//	decls                 for every variable declaration of the module (top level and nested): start line, name,
//	                      declared type and the type the CHECKER assigned to the initialiser (VarDecl.InitType,
//	                      written by typechecker.VisitVarDecl), both rendered structurally by show()
//
// show() renders a ddptypes.Type by its constructors (never by message text): P<n> primitive, L(..) list,
// A(name:..) alias, D(name:..) type definition, S(name) Kombination, V Variable, N nichts, ?<go type> otherwise.
package main

import (
	"bufio"
	"encoding/json"
	"fmt"
	"os"

	"github.com/DDP-Projekt/Kompilierer/src/ast"
	"github.com/DDP-Projekt/Kompilierer/src/ddperror"
	"github.com/DDP-Projekt/Kompilierer/src/ddptypes"
	"github.com/DDP-Projekt/Kompilierer/src/parser"
)

type Req struct {
	ID   string `json:"id"`
	File string `json:"file"`
	Src  string `json:"src"`
}

type Diag struct {
	Code  int  `json:"code"`
	Level int  `json:"level"`
	Line  uint `json:"line"`
}

type Decl struct {
	Line uint   `json:"line"`
	Name string `json:"name"`
	Type string `json:"type"`
	Init string `json:"init"`
}

type Resp struct {
	ID     string `json:"id"`
	Panic  string `json:"panic,omitempty"`
	Err    string `json:"err,omitempty"`
	Nil    bool   `json:"nil_module"`
	Faulty bool   `json:"faulty"`
	Diags  []Diag `json:"diags"`
	Decls  []Decl `json:"decls"`
}

func show(t ddptypes.Type) string {
	switch t := t.(type) {
	case nil:
		return "nil"
	case ddptypes.PrimitiveType:
		return fmt.Sprintf("P%d", int(t))
	case ddptypes.ListType:
		return "L(" + show(t.ElementType) + ")"
	case *ddptypes.TypeAlias:
		return "A(" + t.Name + ":" + show(t.Underlying) + ")"
	case *ddptypes.TypeDef:
		return "D(" + t.Name + ":" + show(t.Underlying) + ")"
	case *ddptypes.StructType:
		return "S(" + t.Name + ")"
	case ddptypes.Variable:
		return "V"
	case ddptypes.VoidType:
		return "N"
	default:
		return fmt.Sprintf("?%T", t)
	}
}

type declVisitor struct{ out *[]Decl }

func (declVisitor) Visitor() {}
func (v declVisitor) VisitVarDecl(d *ast.VarDecl) ast.VisitResult {
	*v.out = append(*v.out, Decl{Line: d.Range.Start.Line, Name: d.Name(), Type: show(d.Type), Init: show(d.InitType)})
	return ast.VisitRecurse
}

func once(r Req) (o Resp) {
	o.ID = r.ID
	var raw []ddperror.Error
	func() {
		defer func() {
			if rec := recover(); rec != nil {
				o.Panic = fmt.Sprint(rec)
				if len(o.Panic) > 400 {
					o.Panic = o.Panic[:400]
				}
			}
		}()
		m, err := parser.Parse(parser.Options{FileName: r.File, Source: []byte(r.Src), Modules: map[string]*ast.Module{},
			ErrorHandler: func(e ddperror.Error) { raw = append(raw, e) }})
		if err != nil {
			o.Err = err.Error()
		}
		if m == nil {
			o.Nil = true
			return
		}
		o.Faulty = m.Ast.Faulty
		ast.VisitModule(m, declVisitor{&o.Decls})
	}()
	for _, e := range raw {
		o.Diags = append(o.Diags, Diag{Code: int(e.Code), Level: int(e.Level), Line: e.Range.Start.Line})
	}
	return o
}

func main() {
	in := bufio.NewScanner(os.Stdin)
	in.Buffer(make([]byte, 1<<20), 1<<28)
	out := bufio.NewWriter(os.Stdout)
	defer out.Flush()
	for in.Scan() {
		var r Req
		if err := json.Unmarshal(in.Bytes(), &r); err != nil {
			continue
		}
		b, _ := json.Marshal(once(r))
		out.Write(b)
		out.WriteByte('\n')
		out.Flush()
	}
}
