// constx: for every .ddp file named on stdin (one path per line) run the real parser with the
// ConstFuncParamAnnotator (what kddp activates at -O 2, src/compiler/interface.go:64-68) and print,
// in declaration order, every non-extern function of the main module with one bit per parameter:
// 1 = the annotator judged the parameter constant.   Output: one line per input file,
//   "OK name:bits name:bits ..."   or   "ERR <text>"
package main

import (
	"bufio"
	"fmt"
	"os"
	"strings"

	"github.com/DDP-Projekt/Kompilierer/src/ast"
	"github.com/DDP-Projekt/Kompilierer/src/ast/annotators"
	"github.com/DDP-Projekt/Kompilierer/src/ddperror"
	"github.com/DDP-Projekt/Kompilierer/src/parser"
)

func one(path string) (res string) {
	defer func() {
		if r := recover(); r != nil {
			res = "ERR panic " + strings.ReplaceAll(fmt.Sprint(r), "\n", " ")
		}
	}()
	nerr := 0
	m, err := parser.Parse(parser.Options{
		FileName:     path,
		ErrorHandler: func(e ddperror.Error) { nerr++ },
		Annotators:   []ast.Annotator{&annotators.ConstFuncParamAnnotator{}},
	})
	if err != nil || m == nil {
		return "ERR parse " + fmt.Sprint(err)
	}
	if m.Ast.Faulty || nerr > 0 {
		return fmt.Sprintf("ERR faulty diagnostics=%d", nerr)
	}
	var sb strings.Builder
	sb.WriteString("OK")
	for _, st := range m.Ast.Statements {
		ds, ok := st.(*ast.DeclStmt)
		if !ok {
			continue
		}
		fd, ok := ds.Decl.(*ast.FuncDecl)
		if !ok || ast.IsExternFunc(fd) {
			continue
		}
		att, ok := m.Ast.GetMetadataByKind(fd, annotators.ConstFuncParamMetaKind)
		sb.WriteString(" " + fd.Name() + ":")
		if !ok || att == nil {
			sb.WriteString("?")
			continue
		}
		meta := att.(annotators.ConstFuncParamMeta)
		for _, p := range fd.Parameters {
			if meta.IsConst[p.Name.Literal] {
				sb.WriteString("1")
			} else {
				sb.WriteString("0")
			}
		}
	}
	return sb.String()
}

func main() {
	sc := bufio.NewScanner(os.Stdin)
	sc.Buffer(make([]byte, 1<<20), 1<<20)
	w := bufio.NewWriter(os.Stdout)
	defer w.Flush()
	for sc.Scan() {
		p := strings.TrimSpace(sc.Text())
		if p == "" {
			continue
		}
		fmt.Fprintln(w, one(p))
	}
}
