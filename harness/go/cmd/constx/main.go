// constx: for every .ddp file named on stdin (one path per line) run the real parser with the
// ConstFuncParamAnnotator (what kddp activates at -O 2, src/compiler/interface.go:64-68) and print,
// in declaration order, every non-extern function of the main module with one bit per parameter:
// 1 = the annotator judged the parameter constant.   Output: one line per input file,
//   "OK name:bits name:bits ..."   or   "ERR <text>"
package main

import (
	"bufio"
	"fmt"
	"os"
	"strings"

	"github.com/DDP-Projekt/Kompilierer/src/ast"
	"github.com/DDP-Projekt/Kompilierer/src/ast/annotators"
	"github.com/DDP-Projekt/Kompilierer/src/ddperror"
	"github.com/DDP-Projekt/Kompilierer/src/parser"
)

func one(path string) (res string) {
	defer func() {
		if r := recover(); r != nil {
			res = "ERR panic " + strings.ReplaceAll(fmt.Sprint(r), "\n", " ")
		}
	}()
	nerr := 0
	m, err := parser.Parse(parser.Options{
		FileName:     path,
		ErrorHandler: func(e ddperror.Error) { nerr++ },
		Annotators:   []ast.Annotator{&annotators.ConstFuncParamAnnotator{}},
	})
	if err != nil || m == nil {
		return "ERR parse " + fmt.Sprint(err)
	}
	if m.Ast.Faulty || nerr > 0 {
		return fmt.Sprintf("ERR faulty diagnostics=%d", nerr)
	}
	var sb strings.Builder
	sb.WriteString("OK")
	bits := func(fd *ast.FuncDecl, tree *ast.Ast) string {
		att, ok := tree.GetMetadataByKind(fd, annotators.ConstFuncParamMetaKind)
		if !ok || att == nil {
			return "?"
		}
		meta := att.(annotators.ConstFuncParamMeta)
		var b strings.Builder
		for _, p := range fd.Parameters {
			if meta.IsConst[p.Name.Literal] {
				b.WriteString("1")
			} else {
				b.WriteString("0")
			}
		}
		return b.String()
	}
	var dump func(mod *ast.Module, prefix string)
	dump = func(mod *ast.Module, prefix string) {
		for _, st := range mod.Ast.Statements {
			ds, ok := st.(*ast.DeclStmt)
			if !ok {
				continue
			}
			fd, ok := ds.Decl.(*ast.FuncDecl)
			if !ok || ast.IsExternFunc(fd) {
				continue
			}
			if ast.IsGeneric(fd) {
				// every instantiation, looked up exactly as compiler.VisitFuncCall does: in the AST of inst.Module()
				for _, insts := range fd.Generic.Instantiations {
					for _, inst := range insts {
						sb.WriteString(" " + prefix + fd.Name() + "@:" + bits(inst, inst.Module().Ast))
					}
				}
				continue
			}
			sb.WriteString(" " + prefix + fd.Name() + ":" + bits(fd, mod.Ast))
		}
	}
	dump(m, "")
	// generic functions of directly imported user modules that this program instantiates
	for _, imp := range m.Imports {
		for _, im := range imp.Modules {
			if im == nil || strings.Contains(im.FileName, "Duden") {
				continue
			}
			dump(im, "import.")
		}
	}
	return sb.String()
}

func main() {
	sc := bufio.NewScanner(os.Stdin)
	sc.Buffer(make([]byte, 1<<20), 1<<20)
	w := bufio.NewWriter(os.Stdout)
	defer w.Flush()
	for sc.Scan() {
		p := strings.TrimSpace(sc.Text())
		if p == "" {
			continue
		}
		fmt.Fprintln(w, one(p))
	}
}
