// diagx: C07 harness over the real frontend and the real excerpt renderer.
// One JSON request per line on stdin, one JSON answer per line on stdout.
//
//	{"id":..,"file":"/abs/x.ddp"}                     parse the file (imports are read from disk) and report
//	    Faulty of the root and of every module in the module map, every delivered diagnostic (code, level,
//	    file, range; generic-instantiation sub-errors flattened with "wrapped":depth), whether
//	    ddperror.MakeAdvancedHandler panics on it (a) set up for the ROOT file like cmd/kddp does and
//	    (b) set up for the diagnostic's own file; recovered panic / returned error of parser.Parse.
//	{"id":..,"file":"rel/or/abs.ddp","cwd":"/dir","chain":true}   chdir to cwd, then exactly the wiring of
//	    cmd/kddp/build_cmd.go: ONE ddperror.MakeAdvancedHandler(file as spelled, text of that file, w) receives
//	    every diagnostic while parser.Parse runs; per diagnostic the printed text ("out") and a recovered panic
//	    of the handler ("panic_chain") are reported in addition
//	{"id":..,"text":"..","grid":[L,C]}                render every range in [0..L]x[0..C]x[0..L]x[0..C] through
//	    MakeAdvancedHandler over `text`: bitstring, '1' = no panic
//	{"id":..,"text":"..","ranges":[[sl,sc,el,ec],..],"other_file":bool}   explicit ranges (uint64)
package main

import (
	"bufio"
	"bytes"
	"encoding/json"
	"fmt"
	"os"
	"sort"

	"github.com/DDP-Projekt/Kompilierer/src/ast"
	"github.com/DDP-Projekt/Kompilierer/src/ddperror"
	"github.com/DDP-Projekt/Kompilierer/src/parser"
	"github.com/DDP-Projekt/Kompilierer/src/token"
)

type Req struct {
	ID        string      `json:"id"`
	File      string      `json:"file"`
	Text      *string     `json:"text"`
	Grid      []uint      `json:"grid"`
	Ranges    [][4]uint64 `json:"ranges"`
	OtherFile bool        `json:"other_file"`
	Cwd       string      `json:"cwd"`
	Chain     bool        `json:"chain"`
}

type Diag struct {
	Code       int    `json:"code"`
	Level      int    `json:"level"`
	File       string `json:"file"`
	SL         uint   `json:"sl"`
	SC         uint   `json:"sc"`
	EL         uint   `json:"el"`
	EC         uint   `json:"ec"`
	Wrapped    int    `json:"wrapped"`
	PanicRoot  string `json:"panic_root,omitempty"`
	PanicOwn   string `json:"panic_own,omitempty"`
	OwnMissing bool   `json:"own_missing,omitempty"`
	Msg        string `json:"msg"`
	Out        string `json:"out,omitempty"`
	PanicChain string `json:"panic_chain,omitempty"`
}

type Mod struct {
	Path   string `json:"path"`
	Faulty bool   `json:"faulty"`
}

type Resp struct {
	ID      string `json:"id"`
	Panic   string `json:"panic,omitempty"`
	Err     string `json:"err,omitempty"`
	Nil     bool   `json:"nil_module"`
	Faulty  bool   `json:"faulty"`
	Diags   []Diag `json:"diags"`
	Modules []Mod  `json:"modules"`
	Bits    string `json:"bits,omitempty"`
}

func render(d ddperror.Error, file string, src []byte) (p string) {
	defer func() {
		if r := recover(); r != nil {
			p = fmt.Sprint(r)
			if len(p) > 200 {
				p = p[:200]
			}
		}
	}()
	var buf bytes.Buffer
	ddperror.MakeAdvancedHandler(file, src, &buf)(d)
	return ""
}

func flatten(out *[]Diag, e ddperror.Error, depth int, rootFile string, rootSrc []byte, cache map[string][]byte) {
	d := Diag{Code: int(e.Code), Level: int(e.Level), File: e.File, SL: e.Range.Start.Line, SC: e.Range.Start.Column,
		EL: e.Range.End.Line, EC: e.Range.End.Column, Wrapped: depth, Msg: e.Msg}
	if len(d.Msg) > 300 {
		d.Msg = d.Msg[:300]
	}
	if depth == 0 {
		d.PanicRoot = render(e, rootFile, rootSrc)
	}
	if e.File != "" {
		src, ok := cache[e.File]
		if !ok {
			s, err := os.ReadFile(e.File)
			if err == nil {
				src = s
			}
			cache[e.File] = src
		}
		if src == nil {
			d.OwnMissing = true
		} else {
			e2 := e
			e2.WrappedGenericErrors = nil
			d.PanicOwn = render(e2, e.File, src)
		}
	}
	*out = append(*out, d)
	for _, w := range e.WrappedGenericErrors {
		flatten(out, w, depth+1, rootFile, rootSrc, cache)
	}
}

func parse(r Req) (o Resp) {
	o.ID = r.ID
	if r.Cwd != "" {
		if err := os.Chdir(r.Cwd); err != nil {
			o.Err = "chdir: " + err.Error()
			o.Nil = true
			return o
		}
	}
	src, _ := os.ReadFile(r.File)
	var raw []ddperror.Error
	var outs, panics []string
	handler := func(e ddperror.Error) { raw = append(raw, e) }
	if r.Chain {
		var buf bytes.Buffer
		advanced := ddperror.MakeAdvancedHandler(r.File, src, &buf)
		handler = func(e ddperror.Error) {
			raw = append(raw, e)
			buf.Reset()
			pn := ""
			func() {
				defer func() {
					if rec := recover(); rec != nil {
						pn = fmt.Sprint(rec)
					}
				}()
				advanced(e)
			}()
			t := buf.String()
			if len(t) > 4000 {
				t = t[:4000]
			}
			outs = append(outs, t)
			panics = append(panics, pn)
		}
	}
	mods := map[string]*ast.Module{}
	func() {
		defer func() {
			if rec := recover(); rec != nil {
				o.Panic = fmt.Sprint(rec)
				if len(o.Panic) > 400 {
					o.Panic = o.Panic[:400]
				}
			}
		}()
		m, err := parser.Parse(parser.Options{FileName: r.File, Source: src, Modules: mods, ErrorHandler: handler})
		if err != nil {
			o.Err = err.Error()
		}
		if m == nil {
			o.Nil = true
			return
		}
		o.Faulty = m.Ast.Faulty
	}()
	cache := map[string][]byte{r.File: src}
	o.Diags = []Diag{}
	for i, e := range raw {
		at := len(o.Diags)
		flatten(&o.Diags, e, 0, r.File, src, cache)
		if r.Chain && i < len(outs) {
			o.Diags[at].Out = outs[i]
			o.Diags[at].PanicChain = panics[i]
		}
	}
	o.Modules = []Mod{}
	for p, m := range mods {
		if m != nil {
			o.Modules = append(o.Modules, Mod{Path: p, Faulty: m.Ast.Faulty})
		} else {
			o.Modules = append(o.Modules, Mod{Path: p + " (nil)", Faulty: false})
		}
	}
	sort.Slice(o.Modules, func(i, j int) bool { return o.Modules[i].Path < o.Modules[j].Path })
	return o
}

func grid(r Req) (o Resp) {
	o.ID = r.ID
	src := []byte(*r.Text)
	file := "/virt/grid.ddp"
	dfile := file
	if r.OtherFile {
		dfile = "/virt/other.ddp"
	}
	var b bytes.Buffer
	one := func(sl, sc, el, ec uint64) {
		e := ddperror.New(ddperror.SYN_UNEXPECTED_TOKEN, ddperror.LEVEL_ERROR,
			token.Range{Start: token.Position{Line: uint(sl), Column: uint(sc)}, End: token.Position{Line: uint(el), Column: uint(ec)}}, "x", dfile)
		if render(e, file, src) == "" {
			b.WriteByte('1')
		} else {
			b.WriteByte('0')
		}
	}
	if len(r.Grid) == 2 {
		L, C := uint64(r.Grid[0]), uint64(r.Grid[1])
		for a := uint64(0); a <= L; a++ {
			for bb := uint64(0); bb <= C; bb++ {
				for c := uint64(0); c <= L; c++ {
					for d := uint64(0); d <= C; d++ {
						one(a, bb, c, d)
					}
				}
			}
		}
	}
	for _, q := range r.Ranges {
		one(q[0], q[1], q[2], q[3])
	}
	o.Bits = b.String()
	return o
}

func main() {
	in := bufio.NewScanner(os.Stdin)
	in.Buffer(make([]byte, 1<<20), 1<<28)
	out := bufio.NewWriter(os.Stdout)
	defer out.Flush()
	for in.Scan() {
		var r Req
		if err := json.Unmarshal(in.Bytes(), &r); err != nil {
			fmt.Fprintf(out, "{\"id\":\"?\",\"err\":%q}\n", err.Error())
			continue
		}
		var o Resp
		if r.Text != nil {
			o = grid(r)
		} else {
			o = parse(r)
		}
		b, _ := json.Marshal(o)
		out.Write(b)
		out.WriteByte('\n')
		out.Flush()
	}
}
