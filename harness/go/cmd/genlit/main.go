// genlit: regenerates coq/Gen/LitEscapes.v from the sources of the tree under check (translator for C19).
// It reads, with go/parser,
//   src/scanner/scanner.go     scanEscape: the case list of its switch; string()/char(): the quote passed to scanEscape
//   src/parser/expressions.go  parseString / parseChar: the escape switch (case 'k': x = 'v'; a case without
//                              assignment maps k to itself; the default clause is the diagnostic)
// usage: genlit <repo>
package main

import (
	"fmt"
	"go/ast"
	"go/parser"
	"go/token"
	"os"
	"path/filepath"
	"strconv"
	"strings"
)

func die(f string, a ...any) {
	fmt.Fprintf(os.Stderr, "genlit: "+f+"\n", a...)
	os.Exit(2)
}

func runeOf(e ast.Expr) (rune, bool) {
	bl, ok := e.(*ast.BasicLit)
	if !ok || bl.Kind != token.CHAR {
		return 0, false
	}
	s := bl.Value
	r, _, _, err := strconv.UnquoteChar(s[1:len(s)-1], '\'')
	if err != nil {
		return 0, false
	}
	return r, true
}

func funcs(path string) map[string]*ast.FuncDecl {
	fset := token.NewFileSet()
	f, err := parser.ParseFile(fset, path, nil, 0)
	if err != nil {
		die("cannot parse %s: %v", path, err)
	}
	m := map[string]*ast.FuncDecl{}
	for _, d := range f.Decls {
		if fd, ok := d.(*ast.FuncDecl); ok {
			m[fd.Name.Name] = fd
		}
	}
	return m
}

// the switch statements of a function whose tag is the identifier `tag` ("" = any), outermost first
func switches(fd *ast.FuncDecl, tag string) []*ast.SwitchStmt {
	var out []*ast.SwitchStmt
	ast.Inspect(fd.Body, func(n ast.Node) bool {
		if sw, ok := n.(*ast.SwitchStmt); ok {
			if tag == "" {
				out = append(out, sw)
			} else if id, ok := sw.Tag.(*ast.Ident); ok && id.Name == tag {
				out = append(out, sw)
			}
		}
		return true
	})
	return out
}

type pair struct{ k, v rune }

func escapeTable(fd *ast.FuncDecl, tag string) []pair {
	sws := switches(fd, tag)
	if len(sws) != 1 {
		die("%s: expected exactly one switch on %s, found %d", fd.Name.Name, tag, len(sws))
	}
	var out []pair
	sawDefault := false
	for _, st := range sws[0].Body.List {
		cc := st.(*ast.CaseClause)
		if cc.List == nil {
			sawDefault = true
			continue
		}
		var val *rune
		for _, b := range cc.Body {
			as, ok := b.(*ast.AssignStmt)
			if !ok || len(as.Lhs) != 1 || len(as.Rhs) != 1 {
				die("%s: unexpected statement in an escape case", fd.Name.Name)
			}
			id, ok := as.Lhs[0].(*ast.Ident)
			r, ok2 := runeOf(as.Rhs[0])
			if !ok || !ok2 || id.Name != tag {
				die("%s: unexpected assignment in an escape case", fd.Name.Name)
			}
			val = &r
		}
		for _, e := range cc.List {
			k, ok := runeOf(e)
			if !ok {
				die("%s: case label is not a rune literal", fd.Name.Name)
			}
			v := k
			if val != nil {
				v = *val
			}
			out = append(out, pair{k, v})
		}
	}
	if !sawDefault {
		die("%s: escape switch has no default (diagnostic) clause", fd.Name.Name)
	}
	return out
}

func quoteArg(fd *ast.FuncDecl) rune {
	var found []rune
	ast.Inspect(fd.Body, func(n ast.Node) bool {
		if ce, ok := n.(*ast.CallExpr); ok {
			if se, ok := ce.Fun.(*ast.SelectorExpr); ok && se.Sel.Name == "scanEscape" && len(ce.Args) == 1 {
				if r, ok := runeOf(ce.Args[0]); ok {
					found = append(found, r)
				}
			}
		}
		return true
	})
	if len(found) != 1 {
		die("%s: expected exactly one call scanEscape('<quote>')", fd.Name.Name)
	}
	return found[0]
}

func pairs(ps []pair) string {
	var parts []string
	for _, p := range ps {
		parts = append(parts, fmt.Sprintf("(%d, %d)", p.k, p.v))
	}
	return "[" + strings.Join(parts, "; ") + "]"
}

func main() {
	if len(os.Args) != 2 {
		die("usage: genlit <repo>")
	}
	repo := os.Args[1]
	sc := funcs(filepath.Join(repo, "src", "scanner", "scanner.go"))
	pa := funcs(filepath.Join(repo, "src", "parser", "expressions.go"))
	for _, n := range []string{"scanEscape", "string", "char"} {
		if sc[n] == nil {
			die("scanner.go: func %s not found", n)
		}
	}
	for _, n := range []string{"parseString", "parseChar"} {
		if pa[n] == nil {
			die("expressions.go: func %s not found", n)
		}
	}
	// scanEscape(quote rune): switch s.peekNext() { case <list>: advance; return true; default: err; return false }
	se := sc["scanEscape"]
	if se.Type.Params == nil || len(se.Type.Params.List) != 1 || len(se.Type.Params.List[0].Names) != 1 {
		die("scanEscape: expected one parameter")
	}
	qname := se.Type.Params.List[0].Names[0].Name
	sws := switches(se, "")
	if len(sws) != 1 {
		die("scanEscape: expected exactly one switch")
	}
	var runes []string
	hasQuote := false
	accepting := 0
	for _, st := range sws[0].Body.List {
		cc := st.(*ast.CaseClause)
		if cc.List == nil {
			continue
		}
		accepting++
		for _, e := range cc.List {
			if id, ok := e.(*ast.Ident); ok && id.Name == qname {
				hasQuote = true
			} else if r, ok := runeOf(e); ok {
				runes = append(runes, fmt.Sprintf("%d", r))
			} else {
				die("scanEscape: unexpected case label")
			}
		}
	}
	if accepting != 1 {
		die("scanEscape: expected exactly one accepting case clause, found %d", accepting)
	}
	fmt.Println("(* generated by harness/go/cmd/genlit from src/scanner/scanner.go and src/parser/expressions.go of the tree under check; do not edit *)")
	fmt.Println("From Coq Require Import List NArith.")
	fmt.Println("Import ListNotations.")
	fmt.Println("Open Scope N_scope.")
	fmt.Println("(* scanner.scanEscape: runes accepted after a backslash; the quote argument is accepted iff scan_escape_quote *)")
	fmt.Printf("Definition scan_escape_runes : list N := [%s].\n", strings.Join(runes, "; "))
	fmt.Printf("Definition scan_escape_quote : bool := %v.\n", hasQuote)
	fmt.Println("(* the argument scanner.string / scanner.char pass to scanEscape *)")
	fmt.Printf("Definition scan_string_quote : N := %d.\n", quoteArg(sc["string"]))
	fmt.Printf("Definition scan_char_quote : N := %d.\n", quoteArg(sc["char"]))
	fmt.Println("(* parser.parseString / parser.parseChar: switch { case k: r = v } (a case without assignment maps k to itself) *)")
	fmt.Printf("Definition parse_string_escapes : list (N * N) := %s.\n", pairs(escapeTable(pa["parseString"], "seq")))
	fmt.Printf("Definition parse_char_escapes : list (N * N) := %s.\n", pairs(escapeTable(pa["parseChar"], "r")))
}
