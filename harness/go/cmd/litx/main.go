// litx: literal observations over the real frontend (C19).
//   T <hex source>  one scanner.NextToken() on the source: "T <type> <literal hex> <#diagnostics during that token>"
//   P <hex source>  parser.Parse on the source: "P <#diagnostics> <codes> <one item per top level statement>"
//                   items: S:<hex> I:<dec> F:<ieee bits hex> C:<dec> B:<0|1> -<item> L[<item>,...] (<item>,op<n>,<item>) for the
//                   initial value of a variable declaration, "!" for a bad declaration, "?<GoType>" otherwise.
//   W <hex source>  parser.Parse on a whole program (imports of the Duden resolved through DDPPATH, imported modules
//                   cached between programs): "W <#error diagnostics> <faulty 0|1> <codes> <every literal node of the
//                   main module in visiting order>", a literal under a unary minus is printed as -<item>.
// ("-" stands for the empty byte string; only observables, never message texts.)
package main

import (
	"bufio"
	"encoding/hex"
	"fmt"
	"math"
	"os"
	"strings"

	"github.com/DDP-Projekt/Kompilierer/src/ast"
	"github.com/DDP-Projekt/Kompilierer/src/ddperror"
	"github.com/DDP-Projekt/Kompilierer/src/parser"
	"github.com/DDP-Projekt/Kompilierer/src/scanner"
	"github.com/DDP-Projekt/Kompilierer/src/token"
)

func hx(s string) string {
	if s == "" {
		return "-"
	}
	return hex.EncodeToString([]byte(s))
}

func unhx(s string) []byte {
	if s == "-" {
		return []byte{}
	}
	b, err := hex.DecodeString(s)
	if err != nil {
		fmt.Fprintln(os.Stderr, "bad hex:", s)
		os.Exit(3)
	}
	return b
}

func item(e ast.Expression) string {
	switch e := e.(type) {
	case nil:
		return "nil"
	case *ast.StringLit:
		return "S:" + hx(e.Value)
	case *ast.IntLit:
		return fmt.Sprintf("I:%d", e.Value)
	case *ast.FloatLit:
		return fmt.Sprintf("F:%016x", math.Float64bits(e.Value))
	case *ast.CharLit:
		return fmt.Sprintf("C:%d", int64(e.Value))
	case *ast.BoolLit:
		if e.Value {
			return "B:1"
		}
		return "B:0"
	case *ast.UnaryExpr:
		if e.Operator == ast.UN_NEGATE {
			return "-" + item(e.Rhs)
		}
		return fmt.Sprintf("?%T", e)
	case *ast.Grouping:
		return item(e.Expr)
	case *ast.BinaryExpr:
		return fmt.Sprintf("(%s,op%d,%s)", item(e.Lhs), int(e.Operator), item(e.Rhs))
	case *ast.ListLit:
		var parts []string
		for _, v := range e.Values {
			parts = append(parts, item(v))
		}
		return "L[" + strings.Join(parts, ",") + "]"
	default:
		return fmt.Sprintf("?%T", e)
	}
}

func doParse(src []byte) (res string) {
	var codes []string
	handler := func(e ddperror.Error) {
		if e.Level == ddperror.LEVEL_ERROR {
			codes = append(codes, fmt.Sprintf("%d", int(e.Code)))
		}
	}
	defer func() {
		if r := recover(); r != nil {
			res = "P PANIC"
		}
	}()
	mod, err := parser.Parse(parser.Options{FileName: "verif_lit.ddp", Source: src, ErrorHandler: handler})
	if err != nil || mod == nil || mod.Ast == nil {
		return fmt.Sprintf("P ERR %d", len(codes))
	}
	var items []string
	for _, st := range mod.Ast.Statements {
		switch st := st.(type) {
		case *ast.DeclStmt:
			switch d := st.Decl.(type) {
			case *ast.VarDecl:
				items = append(items, item(d.InitVal))
			case *ast.BadDecl:
				items = append(items, "!")
			default:
				items = append(items, fmt.Sprintf("?%T", d))
			}
		default:
			items = append(items, fmt.Sprintf("?%T", st))
		}
	}
	cs := "-"
	if len(codes) > 0 {
		cs = strings.Join(codes, ",")
	}
	return fmt.Sprintf("P %d %s %s", len(codes), cs, strings.Join(items, " "))
}

// every literal node of the module (function bodies, call arguments, list elements, ...)
type litCollector struct {
	items []string
}

func (*litCollector) Visitor() {}
func (c *litCollector) VisitIntLit(e *ast.IntLit) ast.VisitResult {
	c.items = append(c.items, item(e))
	return ast.VisitRecurse
}
func (c *litCollector) VisitFloatLit(e *ast.FloatLit) ast.VisitResult {
	c.items = append(c.items, item(e))
	return ast.VisitRecurse
}
func (c *litCollector) VisitCharLit(e *ast.CharLit) ast.VisitResult {
	c.items = append(c.items, item(e))
	return ast.VisitRecurse
}
func (c *litCollector) VisitStringLit(e *ast.StringLit) ast.VisitResult {
	c.items = append(c.items, item(e))
	return ast.VisitRecurse
}
func (c *litCollector) VisitUnaryExpr(e *ast.UnaryExpr) ast.VisitResult {
	if e.Operator == ast.UN_NEGATE {
		switch e.Rhs.(type) {
		case *ast.IntLit, *ast.FloatLit:
			c.items = append(c.items, item(e))
			return ast.VisitSkipChildren
		}
	}
	return ast.VisitRecurse
}

var importCache = map[string]*ast.Module{}

func doWhole(src []byte) (res string) {
	var codes []string
	handler := func(e ddperror.Error) {
		if e.Level == ddperror.LEVEL_ERROR {
			codes = append(codes, fmt.Sprintf("%d", int(e.Code)))
		}
	}
	defer func() {
		if r := recover(); r != nil {
			res = "W PANIC"
		}
	}()
	mods := map[string]*ast.Module{}
	for k, v := range importCache {
		mods[k] = v
	}
	mod, err := parser.Parse(parser.Options{FileName: "verif_lit.ddp", Source: src, ErrorHandler: handler, Modules: mods})
	if err != nil || mod == nil || mod.Ast == nil {
		return fmt.Sprintf("W ERR %d", len(codes))
	}
	for k, v := range mods {
		if v != mod && v != nil && v.Ast != nil && !v.Ast.Faulty && strings.Contains(k, "Duden") {
			importCache[k] = v
		}
	}
	col := &litCollector{}
	ast.VisitModule(mod, col)
	cs := "-"
	if len(codes) > 0 {
		cs = strings.Join(codes, ",")
	}
	f := 0
	if mod.Ast.Faulty {
		f = 1
	}
	return fmt.Sprintf("W %d %d %s %s", len(codes), f, cs, strings.Join(col.items, " "))
}

func doToken(src []byte) (res string) {
	n := 0
	handler := func(e ddperror.Error) {
		if e.Level == ddperror.LEVEL_ERROR {
			n++
		}
	}
	defer func() {
		if r := recover(); r != nil {
			res = "T PANIC"
		}
	}()
	s, err := scanner.New("verif_lit.ddp", src, handler, scanner.ModeStrictCapitalization)
	if err != nil {
		return "T ERR"
	}
	tok := s.NextToken()
	return fmt.Sprintf("T %d %s %d", int(tok.Type), hx(tok.Literal), n)
}

func main() {
	in := bufio.NewScanner(os.Stdin)
	in.Buffer(make([]byte, 1<<20), 1<<26)
	out := bufio.NewWriter(os.Stdout)
	defer out.Flush()
	fmt.Fprintf(out, "TT STRING=%d CHAR=%d INT=%d FLOAT=%d ILLEGAL=%d MALFORMED_LITERAL=%d\n", int(token.STRING), int(token.CHAR), int(token.INT), int(token.FLOAT), int(token.ILLEGAL), int(ddperror.SYN_MALFORMED_LITERAL))
	for in.Scan() {
		fs := strings.Fields(in.Text())
		if len(fs) != 2 {
			continue
		}
		switch fs[0] {
		case "T":
			fmt.Fprintln(out, doToken(unhx(fs[1])))
		case "P":
			fmt.Fprintln(out, doParse(unhx(fs[1])))
		case "W":
			fmt.Fprintln(out, doWhole(unhx(fs[1])))
		default:
			fmt.Fprintln(out, "?")
		}
	}
}
