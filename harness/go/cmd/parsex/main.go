// parsex: generic frontend harness. Reads one JSON request per line on stdin:
//
//	{"id": "...", "file": "/abs/path.ddp", "src": "<optional source text instead of reading file>",
//	 "ast": true, "render": true, "repeat": 1}
//
// and answers one JSON line per request with the observables of parser.Parse: returned error,
// recovered panic, Faulty flags of the module and of every module in the module map, every
// delivered diagnostic (code, level, file, range, message), optionally the printed AST and whether
// ddperror.MakeAdvancedHandler could render each diagnostic. With "repeat" > 1 the parse is
// repeated in-process and every distinct observation is listed (Go re-randomises map iteration).
// Unrecoverable crashes (stack overflow, fatal error) kill the process: the driver bisects.
package main

import (
	"bufio"
	"bytes"
	"crypto/sha1"
	"encoding/hex"
	"encoding/json"
	"fmt"
	"os"
	"regexp"
	"runtime/debug"
	"sort"
	"strings"

	"github.com/DDP-Projekt/Kompilierer/src/ast"
	"github.com/DDP-Projekt/Kompilierer/src/ddperror"
	"github.com/DDP-Projekt/Kompilierer/src/parser"
)

type Req struct {
	ID     string `json:"id"`
	File   string `json:"file"`
	Src    *string `json:"src"`
	Ast    bool   `json:"ast"`
	Render bool   `json:"render"`
	Repeat int    `json:"repeat"`
}

type Diag struct {
	Code  int    `json:"code"`
	Level int    `json:"level"`
	File  string `json:"file"`
	SL    uint   `json:"sl"`
	SC    uint   `json:"sc"`
	EL    uint   `json:"el"`
	EC    uint   `json:"ec"`
	Msg   string `json:"msg"`
	RenderPanic string `json:"render_panic,omitempty"`
}

type Mod struct {
	Path   string `json:"path"`
	Faulty bool   `json:"faulty"`
}

type Obs struct {
	Panic   string `json:"panic,omitempty"`
	Frames  []string `json:"panic_frames,omitempty"` // innermost frames inside the repository
	Err     string `json:"err,omitempty"`
	Nil     bool   `json:"nil_module"`
	Faulty  bool   `json:"faulty"`
	Diags   []Diag `json:"diags"`
	Modules []Mod  `json:"modules"`
	Ast     string `json:"ast,omitempty"`
}

type Resp struct {
	ID       string `json:"id"`
	Obs      Obs    `json:"obs"`
	Distinct []Obs  `json:"distinct,omitempty"` // further distinct observations under repetition
	Runs     int    `json:"runs"`
}

func render(d ddperror.Error, file string, src []byte) (p string) {
	defer func() {
		if r := recover(); r != nil {
			p = fmt.Sprint(r)
		}
	}()
	var buf bytes.Buffer
	if d.File != "" && d.File != file {
		if s, err := os.ReadFile(d.File); err == nil {
			file, src = d.File, s
		}
	}
	ddperror.MakeAdvancedHandler(file, src, &buf)(d)
	return ""
}

func once(r Req) (o Obs) {
	var src []byte
	if r.Src != nil {
		src = []byte(*r.Src)
	} else {
		src, _ = os.ReadFile(r.File)
	}
	var raw []ddperror.Error
	mods := map[string]*ast.Module{}
	func() {
		defer func() {
			if rec := recover(); rec != nil {
				o.Panic = fmt.Sprint(rec)
				stack := string(debug.Stack())
				if pe, ok := rec.(*parser.ParserError); ok {
					stack = string(pe.StackTrace)
					o.Panic = pe.Msg
					if pe.Err != nil {
						o.Panic = pe.Err.Error()
					}
				}
				o.Frames = repoFrames(stack)
				if len(o.Panic) > 600 {
					o.Panic = o.Panic[:600]
				}
			}
		}()
		opts := parser.Options{FileName: r.File, Modules: mods, ErrorHandler: func(e ddperror.Error) { raw = append(raw, e) }}
		if r.Src != nil {
			opts.Source = src
		}
		m, err := parser.Parse(opts)
		if err != nil {
			o.Err = err.Error()
		}
		if m == nil {
			o.Nil = true
			return
		}
		o.Faulty = m.Ast.Faulty
		if r.Ast {
			o.Ast = m.Ast.String()
		}
	}()
	for _, e := range raw {
		d := Diag{Code: int(e.Code), Level: int(e.Level), File: e.File, SL: e.Range.Start.Line, SC: e.Range.Start.Column, EL: e.Range.End.Line, EC: e.Range.End.Column, Msg: e.Msg}
		if r.Render {
			d.RenderPanic = render(e, r.File, src)
		}
		o.Diags = append(o.Diags, d)
	}
	for p, m := range mods {
		if m != nil {
			o.Modules = append(o.Modules, Mod{Path: p, Faulty: m.Ast.Faulty})
		} else {
			o.Modules = append(o.Modules, Mod{Path: p + " (nil)", Faulty: false})
		}
	}
	sort.Slice(o.Modules, func(i, j int) bool { return o.Modules[i].Path < o.Modules[j].Path })
	return o
}

var frameRe = regexp.MustCompile(`/(src/(?:parser|ast|scanner|ddptypes|ddperror|token|compiler|ddppath)[A-Za-z0-9_/]*\.go):(\d+)`)

// innermost frames of a stack trace that lie inside the repository (skipping panic plumbing)
func repoFrames(stack string) []string {
	var out []string
	for _, m := range frameRe.FindAllStringSubmatch(stack, -1) {
		f := m[1] + ":" + m[2]
		if strings.Contains(f, "parser/error.go") || strings.Contains(f, "parser/interface.go") || strings.Contains(f, "ast/ast.go") {
			continue
		}
		out = append(out, f)
		if len(out) >= 4 {
			break
		}
	}
	return out
}

func key(o Obs) string {
	o2 := o
	o2.Ast = ""
	b, _ := json.Marshal(o2)
	h := sha1.Sum(append(b, []byte(o.Ast)...))
	return hex.EncodeToString(h[:])
}

func main() {
	in := bufio.NewScanner(os.Stdin)
	in.Buffer(make([]byte, 1<<20), 1<<28)
	out := bufio.NewWriter(os.Stdout)
	defer out.Flush()
	for in.Scan() {
		var r Req
		if err := json.Unmarshal(in.Bytes(), &r); err != nil {
			continue
		}
		if r.Repeat < 1 {
			r.Repeat = 1
		}
		resp := Resp{ID: r.ID, Runs: r.Repeat}
		seen := map[string]bool{}
		for i := 0; i < r.Repeat; i++ {
			o := once(r)
			k := key(o)
			if i == 0 {
				resp.Obs = o
				seen[k] = true
			} else if !seen[k] {
				seen[k] = true
				resp.Distinct = append(resp.Distinct, o)
			}
		}
		b, _ := json.Marshal(resp)
		out.Write(b)
		out.WriteByte('\n')
		out.Flush()
	}
}
