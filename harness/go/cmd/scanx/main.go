// scanx: runs the real scanner (scanner.Scan / scanner.ScanAlias) on every case of a line-based case
// file and prints the observable token stream.
//
// input line :  <mode> <line0> <col0> <indent0> <hex of source bytes>
//               mode N = scanner.Scan with ModeNone, S = scanner.Scan with ModeStrictCapitalization,
//               A = scanner.ScanAlias of a STRING token `"` + source + `"` placed at line0/col0/indent0
//               (line0/col0/indent0 are ignored for N and S: Scan always starts at 1/1/0)
// output line:  ERR                                   (the scanner refused the source)
//               OK <tok>|<tok>|...                    tok = type,literalhex,indent,sl,sc,el,ec
package main

import (
	"bufio"
	"encoding/hex"
	"fmt"
	"os"
	"strconv"
	"strings"

	"github.com/DDP-Projekt/Kompilierer/src/ddperror"
	"github.com/DDP-Projekt/Kompilierer/src/scanner"
	"github.com/DDP-Projekt/Kompilierer/src/token"
)

func main() {
	in := bufio.NewScanner(os.Stdin)
	in.Buffer(make([]byte, 1<<20), 1<<26)
	out := bufio.NewWriter(os.Stdout)
	defer out.Flush()
	nerr := 0
	handler := func(ddperror.Error) { nerr++ }
	for in.Scan() {
		fs := strings.Fields(in.Text())
		if len(fs) < 4 {
			continue
		}
		src := []byte{}
		if len(fs) >= 5 {
			b, err := hex.DecodeString(fs[4])
			if err != nil {
				fmt.Fprintln(out, "BADHEX")
				continue
			}
			src = b
		}
		l0, _ := strconv.ParseUint(fs[1], 10, 64)
		c0, _ := strconv.ParseUint(fs[2], 10, 64)
		i0, _ := strconv.ParseUint(fs[3], 10, 64)
		var toks []token.Token
		var err error
		switch fs[0] {
		case "N":
			toks, err = scanner.Scan(scanner.Options{FileName: "x.ddp", Source: src, ScannerMode: scanner.ModeNone, ErrorHandler: handler})
		case "S":
			toks, err = scanner.Scan(scanner.Options{FileName: "x.ddp", Source: src, ScannerMode: scanner.ModeStrictCapitalization, ErrorHandler: handler})
		case "A":
			alias := token.Token{
				Type:    token.STRING,
				Literal: "\"" + string(src) + "\"",
				Indent:  uint(i0),
				Range:   token.Range{Start: token.Position{Line: uint(l0), Column: uint(c0)}, End: token.Position{Line: uint(l0), Column: uint(c0)}},
			}
			toks, err = scanner.ScanAlias(alias, handler)
		default:
			fmt.Fprintln(out, "BADMODE")
			continue
		}
		if err != nil {
			fmt.Fprintln(out, "ERR")
			continue
		}
		out.WriteString("OK ")
		for i, t := range toks {
			if i > 0 {
				out.WriteByte('|')
			}
			fmt.Fprintf(out, "%d,%s,%d,%d,%d,%d,%d", int(t.Type), hex.EncodeToString([]byte(t.Literal)), t.Indent,
				t.Range.Start.Line, t.Range.Start.Column, t.Range.End.Line, t.Range.End.Column)
		}
		out.WriteByte('\n')
	}
}
