// sigx: frontend tie of C18. Parses one DDP file (argv[1]) with parser.Parse and prints, for every function
// declared at top level, the parameter table the later phases lower from:
//
//	F <name> extern=<0/1> generic=<0/1> ret=<spec> <pname>:<spec>:<isref 0/1> ...
//
// spec: Z K B W C T V | N (nichts) | L(<spec>) | S:<Kombination> | D:<typedef>(<spec>) | A:<alias>(<spec>) | G (type parameter)
// one line "S <Kombination> <field>:<spec> ..." per Kombination reachable from a signature,
// and one line "E <n>" with the number of diagnostics delivered.
package main

import (
	"fmt"
	"os"
	"strings"

	"github.com/DDP-Projekt/Kompilierer/src/ast"
	"github.com/DDP-Projekt/Kompilierer/src/ddperror"
	"github.com/DDP-Projekt/Kompilierer/src/ddptypes"
	"github.com/DDP-Projekt/Kompilierer/src/parser"
)

func show(t ddptypes.Type) string {
	switch v := t.(type) {
	case nil:
		return "?"
	case ddptypes.PrimitiveType:
		switch v {
		case ddptypes.ZAHL:
			return "Z"
		case ddptypes.KOMMAZAHL:
			return "K"
		case ddptypes.BYTE:
			return "B"
		case ddptypes.WAHRHEITSWERT:
			return "W"
		case ddptypes.BUCHSTABE:
			return "C"
		case ddptypes.TEXT:
			return "T"
		}
		return "?prim"
	case ddptypes.Variable:
		return "V"
	case ddptypes.VoidType:
		return "N"
	case ddptypes.ListType:
		return "L(" + show(v.ElementType) + ")"
	case *ddptypes.StructType:
		return "S:" + v.Name
	case *ddptypes.TypeDef:
		return "D:" + v.Name + "(" + show(v.Underlying) + ")"
	case *ddptypes.TypeAlias:
		return "A:" + v.Name + "(" + show(v.Underlying) + ")"
	case ddptypes.GenericType:
		return "G"
	}
	return "?" + t.String()
}

var seenStructs = map[*ddptypes.StructType]bool{}
var structLines []string

// records the field table of every Kombination reachable from a signature:  S <name> <field>:<spec> ...
func noteStructs(t ddptypes.Type) {
	switch v := t.(type) {
	case ddptypes.ListType:
		noteStructs(v.ElementType)
	case *ddptypes.TypeDef:
		noteStructs(v.Underlying)
	case *ddptypes.TypeAlias:
		noteStructs(v.Underlying)
	case *ddptypes.StructType:
		if seenStructs[v] {
			return
		}
		seenStructs[v] = true
		line := "S " + v.Name
		for _, f := range v.Fields {
			noteStructs(f.Type)
			line += " " + f.Name + ":" + show(f.Type)
		}
		structLines = append(structLines, line)
	}
}

func main() {
	src, err := os.ReadFile(os.Args[1])
	if err != nil {
		fmt.Println("X", err)
		os.Exit(2)
	}
	nerr := 0
	defer func() {
		if r := recover(); r != nil {
			fmt.Println("X panic", r)
			os.Exit(3)
		}
	}()
	mod, perr := parser.Parse(parser.Options{FileName: os.Args[1], Source: src, ErrorHandler: func(ddperror.Error) { nerr++ }})
	if perr != nil || mod == nil {
		fmt.Println("X", perr)
		os.Exit(2)
	}
	for _, st := range mod.Ast.Statements {
		ds, ok := st.(*ast.DeclStmt)
		if !ok {
			continue
		}
		fd, ok := ds.Decl.(*ast.FuncDecl)
		if !ok {
			continue
		}
		var b strings.Builder
		ex, ge := 0, 0
		if ast.IsExternFunc(fd) {
			ex = 1
		}
		if ast.IsGeneric(fd) {
			ge = 1
		}
		fmt.Fprintf(&b, "F %s extern=%d generic=%d ret=%s", fd.Name(), ex, ge, show(fd.ReturnType))
		noteStructs(fd.ReturnType)
		for _, p := range fd.Parameters {
			noteStructs(p.Type.Type)
			r := 0
			if p.Type.IsReference {
				r = 1
			}
			fmt.Fprintf(&b, " %s:%s:%d", p.Name.Literal, show(p.Type.Type), r)
		}
		fmt.Println(b.String())
	}
	for _, l := range structLines {
		fmt.Println(l)
	}
	fmt.Println("E", nerr)
}
