// sites: inventory of every order-dependent construct in the Go packages on the compile path
// (<repo>/src/..., <repo>/cmd/...). Usage: sites <repo> ; prints one JSON document on stdout.
//
// Listed constructs ("kind"):
//
//	range-map         `for ... := range X` where the type of X (go/types) has a map core type
//	range-func        range over a function iterator (e.g. maps.Keys/maps.Values/maps.All of a map)
//	range-unresolved  range over an expression whose type could not be resolved (conservative: must be classified too)
//	sort-call         any call of sort.* / slices.Sort* / slices.*SortFunc / slices.BinarySearch* is NOT listed, only sorting calls
//	maps-call         any call into package maps / golang.org/x/exp/maps (Keys, Values, All, Collect, Clone, Copy, ...)
//	go-stmt, select-stmt, rand-call (math/rand, time.Now, crypto/rand), sync.Map.Range
//
// Every site gets the key  <file>:<function>:<normalised header text>[#n]  (n = ordinal among identical
// headers inside the same function), so that line shifts do not change keys but any edit of the loop
// header / sort call, a move to another function, or a new site does.
//
// Type information: the packages of the module are type-checked from source with go/types (errors are
// tolerated, cgo is faked); the standard library comes from the "source" importer (GOROOT/src, works
// offline); third-party imports that cannot be loaded become empty packages, which can only turn a
// range into `range-unresolved`, never hide it.
package main

import (
	"bytes"
	"encoding/json"
	"fmt"
	"go/ast"
	"go/build"
	"go/importer"
	"go/parser"
	"go/printer"
	"go/token"
	"go/types"
	"os"
	"path/filepath"
	"sort"
	"strings"
)

const modPath = "github.com/DDP-Projekt/Kompilierer"

type Site struct {
	Key    string `json:"key"`
	Kind   string `json:"kind"`
	File   string `json:"file"`
	Func   string `json:"func"`
	Header string `json:"header"`
	Line   int    `json:"line"`
	Type   string `json:"type,omitempty"`
	Uses   string `json:"uses,omitempty"` // which of key/value the loop binds
}

type pkgInfo struct {
	pkg   *types.Package
	info  *types.Info
	files []*ast.File
	dir   string
}

type imp struct {
	repo     string
	fset     *token.FileSet
	std      types.ImporterFrom
	pkgs     map[string]*pkgInfo
	loading  map[string]bool
	fake     map[string]*types.Package
	notes    []string
	ctx      build.Context
	mods     map[string]string
	modcache string
}

func (im *imp) Import(path string) (*types.Package, error) { return im.ImportFrom(path, im.repo, 0) }

func (im *imp) ImportFrom(path, dir string, mode types.ImportMode) (*types.Package, error) {
	if path == "unsafe" {
		return types.Unsafe, nil
	}
	if path == modPath || strings.HasPrefix(path, modPath+"/") {
		p := im.load(path)
		if p != nil {
			return p.pkg, nil
		}
	} else if !strings.Contains(strings.Split(path, "/")[0], ".") {
		// standard library
		if p, err := im.std.ImportFrom(path, im.repo, 0); err == nil {
			return p, nil
		} else {
			im.notes = append(im.notes, "std import failed: "+path+": "+err.Error())
		}
	} else {
		// third party: straight from the module cache (version from <repo>/go.mod), type-checked from source like
		// the packages of the repository; no `go list`, no network
		if dir := im.modDir(path); dir != "" {
			if p := im.loadDir(path, dir); p != nil {
				return p.pkg, nil
			}
		}
	}
	if p, ok := im.fake[path]; ok {
		return p, nil
	}
	name := path[strings.LastIndex(path, "/")+1:]
	if name == "v3" || name == "v2" {
		parts := strings.Split(path, "/")
		name = parts[len(parts)-2]
	}
	p := types.NewPackage(path, name)
	p.MarkComplete()
	im.fake[path] = p
	im.notes = append(im.notes, "faked import: "+path)
	return p, nil
}

func (im *imp) load(path string) *pkgInfo {
	if p, ok := im.pkgs[path]; ok {
		return p
	}
	if im.loading[path] {
		return nil
	}
	dir := filepath.Join(im.repo, strings.TrimPrefix(strings.TrimPrefix(path, modPath), "/"))
	return im.loadDir(path, dir)
}

// escape a module path the way the module cache does (upper case letter X -> !x)
func escapeMod(s string) string {
	var b strings.Builder
	for _, r := range s {
		if r >= 'A' && r <= 'Z' {
			b.WriteByte('!')
			b.WriteRune(r + 'a' - 'A')
		} else {
			b.WriteRune(r)
		}
	}
	return b.String()
}

func (im *imp) modDir(path string) string {
	if im.mods == nil {
		im.mods = map[string]string{}
		data, _ := os.ReadFile(filepath.Join(im.repo, "go.mod"))
		for _, l := range strings.Split(string(data), "\n") {
			f := strings.Fields(strings.TrimSpace(strings.TrimPrefix(strings.TrimSpace(l), "require")))
			if len(f) >= 2 && strings.Contains(f[0], ".") && strings.HasPrefix(f[1], "v") {
				im.mods[f[0]] = f[1]
			}
		}
		im.modcache = os.Getenv("GOMODCACHE")
		if im.modcache == "" {
			gp := os.Getenv("GOPATH")
			if gp == "" {
				home, _ := os.UserHomeDir()
				gp = filepath.Join(home, "go")
			}
			im.modcache = filepath.Join(strings.Split(gp, string(os.PathListSeparator))[0], "pkg", "mod")
		}
	}
	best := ""
	for m := range im.mods {
		if (path == m || strings.HasPrefix(path, m+"/")) && len(m) > len(best) {
			best = m
		}
	}
	if best == "" {
		return ""
	}
	return filepath.Join(im.modcache, escapeMod(best)+"@"+im.mods[best], strings.TrimPrefix(strings.TrimPrefix(path, best), "/"))
}

func (im *imp) loadDir(path, dir string) *pkgInfo {
	if p, ok := im.pkgs[path]; ok {
		return p
	}
	if im.loading[path] {
		return nil
	}
	im.loading[path] = true
	defer delete(im.loading, path)
	ents, err := os.ReadDir(dir)
	if err != nil {
		return nil
	}
	var files []*ast.File
	for _, e := range ents {
		n := e.Name()
		if e.IsDir() || !strings.HasSuffix(n, ".go") || strings.HasSuffix(n, "_test.go") {
			continue
		}
		if ok, err := im.ctx.MatchFile(dir, n); err != nil || !ok {
			continue
		}
		f, err := parser.ParseFile(im.fset, filepath.Join(dir, n), nil, parser.ParseComments|parser.SkipObjectResolution)
		if err != nil {
			im.notes = append(im.notes, "parse error: "+err.Error())
			if f == nil {
				continue
			}
		}
		files = append(files, f)
	}
	if len(files) == 0 {
		return nil
	}
	info := &types.Info{Types: map[ast.Expr]types.TypeAndValue{}, Uses: map[*ast.Ident]types.Object{}, Defs: map[*ast.Ident]types.Object{}, Selections: map[*ast.SelectorExpr]*types.Selection{}}
	nerr := 0
	cfg := types.Config{Importer: im, FakeImportC: true, Error: func(err error) { nerr++ }}
	pkg, _ := cfg.Check(path, im.fset, files, info)
	if nerr > 0 {
		im.notes = append(im.notes, fmt.Sprintf("%s: %d type errors tolerated", path, nerr))
	}
	p := &pkgInfo{pkg: pkg, info: info, files: files, dir: dir}
	im.pkgs[path] = p
	return p
}

func text(fset *token.FileSet, n ast.Node) string {
	var b bytes.Buffer
	printer.Fprint(&b, fset, n)
	return strings.Join(strings.Fields(b.String()), " ")
}

func coreMap(t types.Type) bool {
	if t == nil {
		return false
	}
	switch u := t.Underlying().(type) {
	case *types.Map:
		return true
	case *types.Pointer:
		_ = u
	case *types.Interface:
		// type parameter: map if every term of the type set is a map
		if tp, ok := t.(*types.TypeParam); ok {
			iface := tp.Constraint().Underlying().(*types.Interface)
			all, any := true, false
			for i := 0; i < iface.NumEmbeddeds(); i++ {
				if un, ok := iface.EmbeddedType(i).(*types.Union); ok {
					for j := 0; j < un.Len(); j++ {
						any = true
						if _, ok := un.Term(j).Type().Underlying().(*types.Map); !ok {
							all = false
						}
					}
				} else if _, ok := iface.EmbeddedType(i).Underlying().(*types.Map); ok {
					any = true
				} else {
					all = false
				}
			}
			return any && all
		}
	}
	return false
}

func main() {
	repo := "/repo"
	if len(os.Args) > 1 {
		repo = os.Args[1]
	}
	repo, _ = filepath.Abs(repo)
	fset := token.NewFileSet()
	ctx := build.Default
	ctx.BuildTags = []string{"verif", "byollvm"}
	ctx.CgoEnabled = true
	os.Chdir(repo)
	im := &imp{repo: repo, fset: fset, pkgs: map[string]*pkgInfo{}, loading: map[string]bool{}, fake: map[string]*types.Package{}, ctx: ctx}
	im.std = importer.ForCompiler(fset, "source", nil).(types.ImporterFrom)

	var pkgPaths []string
	for _, root := range []string{"src", "cmd"} {
		filepath.Walk(filepath.Join(repo, root), func(p string, fi os.FileInfo, err error) error {
			if err != nil || !fi.IsDir() {
				return nil
			}
			if fi.Name() == "testdata" || strings.HasPrefix(fi.Name(), ".") {
				return filepath.SkipDir
			}
			rel, _ := filepath.Rel(repo, p)
			pkgPaths = append(pkgPaths, modPath+"/"+filepath.ToSlash(rel))
			return nil
		})
	}
	sort.Strings(pkgPaths)

	var sites []Site
	var loaded []string
	for _, pp := range pkgPaths {
		p := im.load(pp)
		if p == nil {
			continue
		}
		loaded = append(loaded, strings.TrimPrefix(pp, modPath+"/"))
		for _, f := range p.files {
			fname, _ := filepath.Rel(repo, fset.Position(f.Pos()).Filename)
			fname = filepath.ToSlash(fname)
			counts := map[string]int{}
			add := func(kind, fn, header string, pos token.Pos, typ, uses string) {
				base := fname + ":" + fn + ":" + header
				counts[base]++
				key := base
				if counts[base] > 1 {
					key = fmt.Sprintf("%s#%d", base, counts[base])
				}
				sites = append(sites, Site{Key: key, Kind: kind, File: fname, Func: fn, Header: header, Line: fset.Position(pos).Line, Type: typ, Uses: uses})
			}
			visit := func(fn string, body ast.Node) {
				ast.Inspect(body, func(n ast.Node) bool {
					switch s := n.(type) {
					case *ast.RangeStmt:
						t := p.info.TypeOf(s.X)
						hdr := "for "
						if s.Key != nil {
							hdr += text(fset, s.Key)
							if s.Value != nil {
								hdr += ", " + text(fset, s.Value)
							}
							hdr += " " + s.Tok.String() + " "
						}
						hdr += "range " + text(fset, s.X)
						uses := ""
						if id, ok := s.Key.(*ast.Ident); ok && id.Name != "_" {
							uses += "k"
						} else if s.Key != nil && !ok {
							uses += "k"
						}
						if s.Value != nil {
							if id, ok := s.Value.(*ast.Ident); !ok || id.Name != "_" {
								uses += "v"
							}
						}
						ts := ""
						if t != nil {
							ts = types.TypeString(t, func(p *types.Package) string { return p.Name() })
						}
						if t == nil || t == types.Typ[types.Invalid] {
							add("range-unresolved", fn, hdr, s.Pos(), ts, uses)
						} else if coreMap(t) {
							add("range-map", fn, hdr, s.Pos(), ts, uses)
						} else if _, ok := t.Underlying().(*types.Signature); ok {
							add("range-func", fn, hdr, s.Pos(), ts, uses)
						} else if strings.Contains(ts, "invalid type") {
							// e.g. a slice of an unresolved type is still a slice: only flag when the outer shape is unknown
							switch t.Underlying().(type) {
							case *types.Slice, *types.Array, *types.Basic, *types.Chan, *types.Pointer:
							default:
								add("range-unresolved", fn, hdr, s.Pos(), ts, uses)
							}
						}
					case *ast.GoStmt:
						add("go-stmt", fn, "go "+text(fset, s.Call.Fun), s.Pos(), "", "")
					case *ast.SelectStmt:
						add("select-stmt", fn, "select", s.Pos(), "", "")
					case *ast.CallExpr:
						sel, ok := s.Fun.(*ast.SelectorExpr)
						if !ok {
							// generic instantiation f[T](..)
							if ix, ok2 := s.Fun.(*ast.IndexExpr); ok2 {
								sel, ok = ix.X.(*ast.SelectorExpr)
							}
							if !ok {
								return true
							}
						}
						pkgPath := ""
						if id, ok := sel.X.(*ast.Ident); ok {
							if pn, ok := p.info.Uses[id].(*types.PkgName); ok {
								pkgPath = pn.Imported().Path()
							}
						}
						name := sel.Sel.Name
						hdr := text(fset, s.Fun) + "(" + func() string {
							if len(s.Args) > 0 {
								return text(fset, s.Args[0]) + func() string {
									if len(s.Args) > 1 {
										return ", ..."
									}
									return ""
								}()
							}
							return ""
						}() + ")"
						switch {
						case pkgPath == "sort" && name != "Search" && !strings.HasPrefix(name, "Search") && !strings.HasSuffix(name, "AreSorted") && !strings.HasSuffix(name, "IsSorted"):
							// the comparator text is part of the header so that a changed comparator changes the key
							full := text(fset, s)
							add("sort-call", fn, full, s.Pos(), "", "")
						case (pkgPath == "slices" || pkgPath == "golang.org/x/exp/slices") && strings.Contains(name, "Sort") && !strings.HasPrefix(name, "IsSorted"):
							add("sort-call", fn, text(fset, s), s.Pos(), "", "")
						case pkgPath == "maps" || pkgPath == "golang.org/x/exp/maps":
							add("maps-call", fn, hdr, s.Pos(), "", "")
						case pkgPath == "math/rand" || pkgPath == "math/rand/v2" || pkgPath == "crypto/rand" || (pkgPath == "time" && name == "Now"):
							add("rand-call", fn, hdr, s.Pos(), "", "")
						default:
							if pkgPath == "" && name == "Range" {
								if t := p.info.TypeOf(sel.X); t != nil && strings.Contains(t.String(), "sync.Map") {
									add("syncmap-range", fn, hdr, s.Pos(), "", "")
								}
							}
						}
					}
					return true
				})
			}
			for _, d := range f.Decls {
				switch d := d.(type) {
				case *ast.FuncDecl:
					fn := d.Name.Name
					if d.Recv != nil && len(d.Recv.List) > 0 {
						rt := text(fset, d.Recv.List[0].Type)
						rt = strings.TrimPrefix(rt, "*")
						if i := strings.Index(rt, "["); i >= 0 {
							rt = rt[:i]
						}
						fn = rt + "." + fn
					}
					if d.Body != nil {
						visit(fn, d.Body)
					}
				case *ast.GenDecl:
					visit("<package-level>", d)
				}
			}
		}
	}
	sort.SliceStable(sites, func(i, j int) bool { return sites[i].Key < sites[j].Key })
	sort.Strings(im.notes)
	notes := im.notes[:0:0]
	for i, n := range im.notes {
		if i == 0 || n != im.notes[i-1] {
			notes = append(notes, n)
		}
	}
	out := map[string]any{"repo": repo, "packages": loaded, "sites": sites, "notes": notes}
	b, _ := json.MarshalIndent(out, "", " ")
	os.Stdout.Write(b)
	os.Stdout.WriteString("\n")
}
