// triex: runs histories over the real alias trie (src/parser/alias_trie) with the parser's real key
// predicates (tokenEqual/tokenLess through the verif hook) and prints the observable answers.
package main

import (
	"bufio"
	"encoding/hex"
	"fmt"
	"os"
	"strconv"
	"strings"

	"verifharness/internal/tyspec"

	"github.com/DDP-Projekt/Kompilierer/src/ddptypes"
	"github.com/DDP-Projekt/Kompilierer/src/parser"
	at "github.com/DDP-Projekt/Kompilierer/src/parser/alias_trie"
	"github.com/DDP-Projekt/Kompilierer/src/token"
)

var vocab = map[int]token.Token{}
var env = tyspec.New()

func fresh(id int) *token.Token {
	t := vocab[id]
	c := t
	if t.AliasInfo != nil {
		ai := *t.AliasInfo
		c.AliasInfo = &ai
	}
	return &c
}

func keys(fs []string) []*token.Token {
	out := make([]*token.Token, 0, len(fs))
	for _, f := range fs {
		id, _ := strconv.Atoi(f)
		out = append(out, fresh(id))
	}
	return out
}

// the token kinds that parser.alias accepts as a one-token argument for a placeholder
func isArg(t token.TokenType) bool {
	switch t {
	case token.INT, token.FLOAT, token.TRUE, token.FALSE, token.CHAR, token.STRING, token.IDENTIFIER, token.SYMBOL:
		return true
	}
	return false
}

func newTrie() *at.Trie[*token.Token, int] {
	return at.New[*token.Token, int](parser.VerifTokenEqual, parser.VerifTokenLess)
}

func main() {
	in := bufio.NewScanner(os.Stdin)
	in.Buffer(make([]byte, 1<<20), 1<<26)
	out := bufio.NewWriter(os.Stdout)
	defer out.Flush()
	trie := newTrie()
	var stack []*at.Trie[*token.Token, int] // the tries that were current before the open forks (Y without Z yet)
	for in.Scan() {
		line := in.Text()
		fs := strings.Fields(line)
		if len(fs) == 0 {
			continue
		}
		switch fs[0] {
		case "T":
			id, _ := strconv.Atoi(fs[1])
			tt, _ := strconv.Atoi(fs[2])
			lit := ""
			if len(fs) > 3 {
				b, _ := hex.DecodeString(fs[3])
				lit = string(b)
			}
			vocab[id] = token.Token{Type: token.TokenType(tt), Literal: lit}
		case "P":
			id, _ := strconv.Atoi(fs[1])
			typ, err := env.Parse(fs[3])
			if err != nil {
				fmt.Fprintln(os.Stderr, "bad type spec:", err)
				os.Exit(3)
			}
			vocab[id] = token.Token{Type: token.ALIAS_PARAMETER, Literal: "<p>", AliasInfo: &ddptypes.ParameterType{Type: typ, IsReference: fs[2] == "1"}}
		case "PN": // alias parameter whose type could not be parsed: no AliasInfo
			id, _ := strconv.Atoi(fs[1])
			if id%2 == 0 {
				vocab[id] = token.Token{Type: token.ALIAS_PARAMETER, Literal: "<p>"}
			} else { // type information present but without a type
				vocab[id] = token.Token{Type: token.ALIAS_PARAMETER, Literal: "<p>", AliasInfo: &ddptypes.ParameterType{Type: nil, IsReference: true}}
			}
		case "Q":
			n := len(vocab)
			for i := 0; i < n; i++ {
				t := vocab[i]
				name := "-"
				if t.AliasInfo != nil && t.AliasInfo.Type != nil {
					name = hex.EncodeToString([]byte(ddptypes.GetUnderlying(t.AliasInfo.Type).String()))
					isl := 0
					if ddptypes.IsList(t.AliasInfo.Type) {
						isl = 1
					}
					name = fmt.Sprintf("%s %d", name, isl)
				}
				fmt.Fprintf(out, "N %d %s\n", i, name)
			}
			for i := 0; i < n; i++ {
				var eq, lt strings.Builder
				for j := 0; j < n; j++ {
					a, b := fresh(i), fresh(j)
					if parser.VerifTokenEqual(a, b) {
						eq.WriteByte('1')
					} else {
						eq.WriteByte('0')
					}
					if parser.VerifTokenLess(a, b) {
						lt.WriteByte('1')
					} else {
						lt.WriteByte('0')
					}
				}
				fmt.Fprintf(out, "E %d %s %s\n", i, eq.String(), lt.String())
			}
		case "H":
			trie = newTrie()
			stack = stack[:0]
			fmt.Fprintln(out, "H")
		case "Y": // fork begin: copy the trie (as generateGenericContext does) and continue on the copy
			stack = append(stack, trie)
			trie = at.Copy(trie)
			fmt.Fprintln(out, "Y")
		case "Z": // fork end: discard the copy, back to the trie that was current before the matching Y
			if n := len(stack); n > 0 {
				trie = stack[n-1]
				stack = stack[:n-1]
			}
			fmt.Fprintln(out, "Z")
		case "U": // Put: Insert without looking first (generateGenericContext inserts the declaration-site aliases so)
			val, _ := strconv.Atoi(fs[1])
			ks := keys(fs[2:])
			func() {
				defer func() {
					if r := recover(); r != nil {
						fmt.Fprintln(out, "U !")
					}
				}()
				trie.Insert(ks, val)
				fmt.Fprintln(out, "U")
			}()
		case "D":
			val, _ := strconv.Atoi(fs[1])
			ks := keys(fs[2:])
			func() {
				defer func() {
					if r := recover(); r != nil {
						fmt.Fprintln(out, "D !")
					}
				}()
				if ok, v := trie.Contains(ks); ok && v != 0 {
					fmt.Fprintf(out, "R %d\n", v)
				} else {
					trie.Insert(ks, val)
					fmt.Fprintln(out, "D")
				}
			}()
		case "L":
			ks := keys(fs[1:])
			if ok, v := trie.Contains(ks); ok && v != 0 {
				fmt.Fprintf(out, "F %d\n", v)
			} else {
				fmt.Fprintln(out, "F -")
			}
		case "S":
			q := keys(fs[1:])
			func() {
				defer func() {
					if r := recover(); r != nil {
						fmt.Fprintln(out, "M !")
					}
				}()
				cursors := map[int]int{}
				cur := 0
				vals := trie.Search(func(node int, child *token.Token) (*token.Token, bool) {
					if c, ok := cursors[node]; ok {
						cur = c
					} else {
						cursors[node] = cur
					}
					if cur >= len(q) {
						return nil, false
					}
					k := q[cur]
					cur++
					// as the generator of parser.alias (alias.go:50-53), with one-token arguments: a placeholder
					// child swallows an argument token and is handed back itself
					if child != nil && child.Type == token.ALIAS_PARAMETER && isArg(k.Type) {
						return child, true
					}
					return k, true
				})
				var b strings.Builder
				b.WriteString("M")
				for _, v := range vals {
					fmt.Fprintf(&b, " %d", v)
				}
				fmt.Fprintln(out, b.String())
			}()
		}
	}
}
