package main

import (
	"bufio"
	"encoding/hex"
	"fmt"
	"path/filepath"
	"sort"
	"strings"

	"github.com/DDP-Projekt/Kompilierer/src/ast"
	"github.com/DDP-Projekt/Kompilierer/src/ddperror"
	"github.com/DDP-Projekt/Kompilierer/src/parser"
)

// FI <hex path of main.ddp>: parse the program (with its imports) and dump what is observable of the per-module
// cache of generic function instantiations (model: coq/Types/GenericFun.v):
//
//	FC <module> <generic function> <instance number>   every call of a generic function, module by module (sorted by
//	                                                    file name), in source order; instance numbers by pointer identity
//	                                                    of FuncCall.Func in order of first appearance
//	FE <generic function> <key module> <parameter types joined by ;>   every entry of GenericFuncInfo.Instantiations
//	FI <errors>
type callCollector struct {
	calls []*ast.FuncDecl // the function every call / overloaded operator expression is bound to, in source order
}

func (*callCollector) Visitor() {}
func (c *callCollector) VisitFuncCall(e *ast.FuncCall) ast.VisitResult {
	c.calls = append(c.calls, e.Func)
	return ast.VisitRecurse
}

// operator expressions served by an overload (instantiated through typechecker.findOverload / findOverloadCast)
func (c *callCollector) overload(o *ast.OperatorOverload) ast.VisitResult {
	if o != nil {
		c.calls = append(c.calls, o.Decl)
	}
	return ast.VisitRecurse
}
func (c *callCollector) VisitBinaryExpr(e *ast.BinaryExpr) ast.VisitResult {
	return c.overload(e.OverloadedBy)
}
func (c *callCollector) VisitUnaryExpr(e *ast.UnaryExpr) ast.VisitResult {
	return c.overload(e.OverloadedBy)
}
func (c *callCollector) VisitCastExpr(e *ast.CastExpr) ast.VisitResult {
	return c.overload(e.OverloadedBy)
}

func base(m *ast.Module) string {
	if m == nil {
		return "?"
	}
	return strings.TrimSuffix(filepath.Base(m.FileName), ".ddp")
}

func funinstCommand(fs []string, out *bufio.Writer) bool {
	if fs[0] != "FI" {
		return false
	}
	pathb, _ := hex.DecodeString(fs[1])
	nerr := 0
	mods := map[string]*ast.Module{}
	var mod *ast.Module
	func() {
		defer func() {
			if r := recover(); r != nil {
				nerr = -1
			}
		}()
		mod, _ = parser.Parse(parser.Options{FileName: string(pathb), Modules: mods, ErrorHandler: func(ddperror.Error) { nerr++ }})
	}()
	if mod == nil {
		fmt.Fprintf(out, "FI %d\n", nerr)
		return true
	}
	all := map[string]*ast.Module{base(mod): mod}
	for _, m := range mods {
		all[base(m)] = m
	}
	names := make([]string, 0, len(all))
	for k := range all {
		names = append(names, k)
	}
	sort.Strings(names)
	seen := map[*ast.FuncDecl]int{}
	var entries []string
	for _, n := range names {
		m := all[n]
		cc := &callCollector{}
		ast.VisitModule(m, cc)
		for _, fn := range cc.calls {
			if fn == nil || fn.GenericInstantiation == nil {
				continue
			}
			if _, ok := seen[fn]; !ok {
				seen[fn] = len(seen)
			}
			fmt.Fprintf(out, "FC %s %s %d\n", n, fn.GenericInstantiation.GenericDecl.Name(), seen[fn])
		}
		for _, stmt := range m.Ast.Statements {
			ds, ok := stmt.(*ast.DeclStmt)
			if !ok {
				continue
			}
			fd, ok := ds.Decl.(*ast.FuncDecl)
			if !ok || fd.Generic == nil {
				continue
			}
			for km, insts := range fd.Generic.Instantiations {
				for _, inst := range insts {
					ps := make([]string, 0, len(inst.Parameters))
					for _, p := range inst.Parameters {
						// not ParameterType.String(): it panics for a Referenz to an alias of a primitive type
						ps = append(ps, strings.ReplaceAll(p.Type.Type.String(), " ", "_"))
					}
					entries = append(entries, fmt.Sprintf("FE %s %s %s", fd.Name(), base(km), strings.Join(ps, ";")))
				}
			}
		}
	}
	sort.Strings(entries)
	for _, e := range entries {
		fmt.Fprintln(out, e)
	}
	fmt.Fprintf(out, "FI %d\n", nerr)
	return true
}
