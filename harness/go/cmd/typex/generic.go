package main

import (
	"bufio"
	"fmt"
	"sort"
	"strconv"
	"strings"

	"verifharness/internal/tyspec"

	"github.com/DDP-Projekt/Kompilierer/src/ddptypes"
)

// Type-level generic commands (model: coq/Types/Generic.v).  Instantiated Kombinationen are numbered
// 1000, 1001, ... in the order in which they are first returned to the harness and can be used in later
// specs as S#<number>.
//
//	GR                      reset (new scenario: no generic Kombinationen, no bindings)
//	GS <gid> <G-spec>...    declare generic Kombination <gid> with these type parameters (one field each)
//	GI <gid> <spec>...      GetInstantiatedStructType            -> "GI <S#n | nil>"
//	GC                      clear the bindings
//	GB <G-spec> <spec>      pre-bind a type parameter
//	GU <arg> <param>        UnifyGenericType(arg, param, σ)       -> "GU <spec | nil | panic> <bindings>"
//	GT <spec>               GetInstantiatedType(spec, σ)          -> "GT <spec | nil>"
var (
	gstructs = map[int]*ddptypes.GenericStructType{}
	bindings = map[string]ddptypes.Type{}
	seen     = map[*ddptypes.StructType]int{}
)

func register(s *ddptypes.StructType) {
	if _, ok := seen[s]; !ok {
		seen[s] = 1000 + len(seen)
		env.Register("S#"+strconv.Itoa(seen[s]), s)
	}
}

func showBindings() string {
	names := make([]string, 0, len(bindings))
	for k := range bindings {
		names = append(names, k)
	}
	sort.Strings(names)
	var sb strings.Builder
	for _, k := range names {
		fmt.Fprintf(&sb, " G%s=%s", k[strings.IndexByte(k, '#'):], env.Show(bindings[k]))
	}
	return sb.String()
}

func mustParse(s string) ddptypes.Type {
	t, err := env.Parse(s)
	if err != nil {
		panic(fmt.Sprintf("bad spec %q: %v", s, err))
	}
	return t
}

func registerDeep(t ddptypes.Type) {
	switch v := t.(type) {
	case ddptypes.ListType:
		registerDeep(v.ElementType)
	case *ddptypes.StructType:
		if g, _ := ddptypes.InstantiatedFrom(v); g != nil { // plain Kombinationen keep their spec id
			register(v)
		}
	}
}

func genericCommand(fs []string, out *bufio.Writer) bool {
	switch fs[0] {
	case "GR":
		gstructs = map[int]*ddptypes.GenericStructType{}
		bindings = map[string]ddptypes.Type{}
		seen = map[*ddptypes.StructType]int{}
		env = tyspec.New()
	case "GS":
		gid, _ := strconv.Atoi(fs[1])
		g := &ddptypes.GenericStructType{StructType: ddptypes.StructType{Name: "g" + fs[1], GramGender: ddptypes.FEMININ}}
		for i, ps := range fs[2:] {
			gt := mustParse(ps).(ddptypes.GenericType)
			g.GenericTypes = append(g.GenericTypes, gt)
			g.StructType.Fields = append(g.StructType.Fields, ddptypes.StructField{Name: "f" + strconv.Itoa(i), Type: gt},
				ddptypes.StructField{Name: "l" + strconv.Itoa(i), Type: ddptypes.ListType{ElementType: gt}})
		}
		gstructs[gid] = g
	case "GI":
		gid, _ := strconv.Atoi(fs[1])
		args := make([]ddptypes.Type, 0, len(fs)-2)
		for _, s := range fs[2:] {
			args = append(args, mustParse(s))
		}
		r := ddptypes.GetInstantiatedStructType(gstructs[gid], args)
		if r == nil {
			fmt.Fprintln(out, "GI nil")
		} else {
			register(r)
			fmt.Fprintln(out, "GI", env.Show(r))
		}
	case "GC":
		bindings = map[string]ddptypes.Type{}
	case "GB":
		bindings[mustParse(fs[1]).(ddptypes.GenericType).Name] = mustParse(fs[2])
	case "GU":
		arg, param := mustParse(fs[1]), mustParse(fs[2])
		res := ""
		func() {
			defer func() {
				if r := recover(); r != nil {
					res = "panic"
				}
			}()
			r := ddptypes.UnifyGenericType(arg, ddptypes.ParameterType{Type: param}, bindings)
			if r == nil {
				res = "nil"
			} else {
				registerDeep(r)
				res = env.Show(r)
			}
		}()
		fmt.Fprintf(out, "GU %s%s\n", res, showBindings())
	case "GT":
		t := mustParse(fs[1])
		res := ""
		func() {
			defer func() {
				if r := recover(); r != nil {
					res = "panic"
				}
			}()
			r := ddptypes.GetInstantiatedType(t, bindings)
			if r == nil {
				res = "nil"
			} else {
				registerDeep(r)
				res = env.Show(r)
			}
		}()
		fmt.Fprintln(out, "GT", res)
	default:
		return false
	}
	return true
}
