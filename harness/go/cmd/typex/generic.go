package main

import "bufio"

// genericCommand handles the C15 type-level commands; returns false for an unknown command.
func genericCommand(fs []string, out *bufio.Writer) bool {
	return false
}
