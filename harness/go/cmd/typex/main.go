// typex: dumps the observable answers of src/ddptypes on a population of types (built from specs by
// internal/tyspec) and the diagnostics parser.Parse issues for tiny DDP programs.
//
//	T <idx> <spec>   register a type
//	U                per type: predicate bits (IsPrimitive IsNumeric IsList IsVoid IsStruct IsTypeAlias IsTypeDef
//	                 IsAny IsGeneric) and GetUnderlying TrueUnderlying ListTrueUnderlying GetListElementType
//	                 GetNestedListElementType CastTypeDef(..).Underlying, rendered by tyspec.Show
//	E                per type: row of Equal and row of DeepEqual against every registered type
//	C                the codes of TYP_BAD_ASSIGNEMENT, TYP_BAD_CAST, TYP_TYPE_MISMATCH, TYP_WRONG_RETURN_TYPE
//	S <id> <hex>     parse the DDP source: "S <id> <err> <faulty> <code>:<line> ..."
//	GU ...           generic unification / instantiation (see generic.go)
//	FI <hexpath>     generic function instantiation cache of a parsed program (see funinst.go)
package main

import (
	"bufio"
	"encoding/hex"
	"fmt"
	"os"
	"strconv"
	"strings"

	"verifharness/internal/tyspec"

	"github.com/DDP-Projekt/Kompilierer/src/ddperror"
	"github.com/DDP-Projekt/Kompilierer/src/ddptypes"
	"github.com/DDP-Projekt/Kompilierer/src/parser"
)

var env = tyspec.New()
var types = map[int]ddptypes.Type{}

func bit(b bool) byte {
	if b {
		return '1'
	}
	return '0'
}

func all() []ddptypes.Type {
	out := make([]ddptypes.Type, len(types))
	for i := range out {
		out[i] = types[i]
	}
	return out
}

func row(ts []ddptypes.Type, f func(ddptypes.Type) bool) string {
	b := make([]byte, len(ts))
	for j, t := range ts {
		b[j] = bit(f(t))
	}
	return string(b)
}

func parseProgram(id string, src []byte, out *bufio.Writer) {
	var errs []ddperror.Error
	res := "0"
	faulty := "0"
	func() {
		defer func() {
			if r := recover(); r != nil {
				res = "panic"
			}
		}()
		mod, err := parser.Parse(parser.Options{FileName: "c14.ddp", Source: src, ErrorHandler: func(e ddperror.Error) { errs = append(errs, e) }})
		if err != nil {
			res = "1"
		}
		if mod != nil && mod.Ast.Faulty {
			faulty = "1"
		}
	}()
	fmt.Fprintf(out, "S %s %s %s", id, res, faulty)
	for _, e := range errs {
		fmt.Fprintf(out, " %d:%d", int(e.Code), e.Range.Start.Line)
	}
	fmt.Fprintln(out)
}

func main() {
	in := bufio.NewScanner(os.Stdin)
	in.Buffer(make([]byte, 1<<20), 1<<26)
	out := bufio.NewWriter(os.Stdout)
	defer out.Flush()
	for in.Scan() {
		fs := strings.Fields(in.Text())
		if len(fs) == 0 {
			continue
		}
		switch fs[0] {
		case "T":
			idx, _ := strconv.Atoi(fs[1])
			t, err := env.Parse(fs[2])
			if err != nil {
				fmt.Fprintln(os.Stderr, "bad type spec:", fs[2], err)
				os.Exit(3)
			}
			types[idx] = t
		case "U":
			for i, t := range all() {
				bits := []byte{bit(ddptypes.IsPrimitive(t)), bit(ddptypes.IsNumeric(t)), bit(ddptypes.IsList(t)), bit(ddptypes.IsVoid(t)),
					bit(ddptypes.IsStruct(t)), bit(ddptypes.IsTypeAlias(t)), bit(ddptypes.IsTypeDef(t)), bit(ddptypes.IsAny(t)), bit(ddptypes.IsGeneric(t))}
				base := "-"
				if d, ok := ddptypes.CastTypeDef(t); ok {
					base = env.Show(d.Underlying)
				}
				fmt.Fprintf(out, "U %d %s %s %s %s %s %s %s\n", i, bits, env.Show(ddptypes.GetUnderlying(t)), env.Show(ddptypes.TrueUnderlying(t)),
					env.Show(ddptypes.ListTrueUnderlying(t)), env.Show(ddptypes.GetListElementType(t)), env.Show(ddptypes.GetNestedListElementType(t)), base)
			}
		case "E":
			ts := all()
			for i, a := range ts {
				fmt.Fprintf(out, "E %d %s %s\n", i, row(ts, func(b ddptypes.Type) bool { return ddptypes.Equal(a, b) }),
					row(ts, func(b ddptypes.Type) bool { return ddptypes.DeepEqual(a, b) }))
			}
		case "C": // the diagnostic codes of the positions under test, from the real constants
			fmt.Fprintf(out, "C %d %d %d %d\n", int(ddperror.TYP_BAD_ASSIGNEMENT), int(ddperror.TYP_BAD_CAST), int(ddperror.TYP_TYPE_MISMATCH), int(ddperror.TYP_WRONG_RETURN_TYPE))
		case "S":
			src, err := hex.DecodeString(fs[2])
			if err != nil {
				fmt.Fprintln(os.Stderr, "bad hex")
				os.Exit(3)
			}
			parseProgram(fs[1], src, out)
		default:
			if !genericCommand(fs, out) && !funinstCommand(fs, out) {
				fmt.Fprintln(os.Stderr, "bad line:", in.Text())
				os.Exit(3)
			}
		}
	}
}
