// Package tyspec builds ddptypes values from a tiny textual spec shared with the Python drivers.
//
//	Z K B W C T V            primitives Zahl Kommazahl Byte Wahrheitswert Buchstabe Text, Variable
//	N                        nichts (void)
//	L(<spec>)                list of
//	S<name>#<id>             Kombination <name>; distinct ids are distinct type objects
//	A<name>#<id>(<spec>)     type alias;  D<name>#<id>(<spec>)  type definition
//	G<name>#<id>             type parameter (GenericType named "<name>#<id>")
//	I<name>#<id>(<spec>)     resolved type parameter (*InstantiatedGenericType)
//
// Show renders a type built by an Env back into the grammar with names dropped (A#3(Z)).
package tyspec

import (
	"fmt"
	"strings"

	"github.com/DDP-Projekt/Kompilierer/src/ddptypes"
)

type Env struct {
	objs map[string]ddptypes.Type
	rev  map[ddptypes.Type]string // pointer-identified object -> "<kind>#<id>" (built lazily by Show)
}

func New() *Env { return &Env{objs: map[string]ddptypes.Type{}} }

func (e *Env) Parse(s string) (ddptypes.Type, error) {
	t, rest, err := e.parse(s)
	if err != nil {
		return nil, err
	}
	if rest != "" {
		return nil, fmt.Errorf("trailing %q", rest)
	}
	return t, nil
}

func nameID(s string) (name, id, rest string) {
	i := strings.IndexByte(s, '#')
	name = s[:i]
	j := i + 1
	for j < len(s) && s[j] >= '0' && s[j] <= '9' {
		j++
	}
	return name, s[i+1 : j], s[j:]
}

func (e *Env) parse(s string) (ddptypes.Type, string, error) {
	if s == "" {
		return nil, "", fmt.Errorf("empty spec")
	}
	switch s[0] {
	case 'Z':
		return ddptypes.ZAHL, s[1:], nil
	case 'K':
		return ddptypes.KOMMAZAHL, s[1:], nil
	case 'B':
		return ddptypes.BYTE, s[1:], nil
	case 'W':
		return ddptypes.WAHRHEITSWERT, s[1:], nil
	case 'C':
		return ddptypes.BUCHSTABE, s[1:], nil
	case 'T':
		return ddptypes.TEXT, s[1:], nil
	case 'V':
		return ddptypes.VARIABLE, s[1:], nil
	case 'N':
		return ddptypes.VoidType{}, s[1:], nil
	case 'L':
		el, rest, err := e.parse(s[2:])
		if err != nil {
			return nil, "", err
		}
		return ddptypes.ListType{ElementType: el}, rest[1:], nil
	case 'S':
		name, id, rest := nameID(s[1:])
		key := "S" + name + "#" + id
		if t, ok := e.objs[key]; ok {
			return t, rest, nil
		}
		t := &ddptypes.StructType{Name: name, GramGender: ddptypes.FEMININ, Fields: []ddptypes.StructField{{Name: "x", Type: ddptypes.ZAHL}}}
		e.objs[key] = t
		return t, rest, nil
	case 'A', 'D':
		name, id, rest := nameID(s[1:])
		key := s[:1] + name + "#" + id
		inner, rest2, err := e.parse(rest[1:])
		if err != nil {
			return nil, "", err
		}
		rest2 = rest2[1:]
		if t, ok := e.objs[key]; ok {
			return t, rest2, nil
		}
		var t ddptypes.Type
		if s[0] == 'A' {
			t = &ddptypes.TypeAlias{Name: name, Underlying: inner, GramGender: ddptypes.MASKULIN}
		} else {
			t = &ddptypes.TypeDef{Name: name, Underlying: inner, GramGender: ddptypes.MASKULIN}
		}
		e.objs[key] = t
		return t, rest2, nil
	case 'G':
		name, id, rest := nameID(s[1:])
		return ddptypes.GenericType{Name: name + "#" + id}, rest, nil
	case 'I':
		name, id, rest := nameID(s[1:])
		key := "I" + name + "#" + id
		inner, rest2, err := e.parse(rest[1:])
		if err != nil {
			return nil, "", err
		}
		rest2 = rest2[1:]
		if t, ok := e.objs[key]; ok {
			return t, rest2, nil
		}
		t := &ddptypes.InstantiatedGenericType{Actual: inner}
		e.objs[key] = t
		return t, rest2, nil
	}
	return nil, "", fmt.Errorf("bad spec %q", s)
}

// Register makes an object created elsewhere (e.g. by GetInstantiatedStructType) showable under key "<kind><name>#<id>".
func (e *Env) Register(key string, t ddptypes.Type) { e.objs[key] = t }

func (e *Env) keyOf(t ddptypes.Type) string {
	if e.rev == nil || len(e.rev) != len(e.objs) {
		e.rev = make(map[ddptypes.Type]string, len(e.objs))
		for k, v := range e.objs {
			e.rev[v] = k[:1] + k[strings.IndexByte(k, '#'):]
		}
	}
	if k, ok := e.rev[t]; ok {
		return k
	}
	return fmt.Sprintf("?%T", t)
}

// Show is the inverse of Parse up to names; objects not built by this Env print as ?<GoType>.
func (e *Env) Show(t ddptypes.Type) string {
	switch v := t.(type) {
	case nil:
		return "nil"
	case ddptypes.PrimitiveType:
		switch v {
		case ddptypes.ZAHL:
			return "Z"
		case ddptypes.KOMMAZAHL:
			return "K"
		case ddptypes.BYTE:
			return "B"
		case ddptypes.WAHRHEITSWERT:
			return "W"
		case ddptypes.BUCHSTABE:
			return "C"
		case ddptypes.TEXT:
			return "T"
		}
		return "?prim"
	case ddptypes.Variable:
		return "V"
	case ddptypes.VoidType:
		return "N"
	case ddptypes.ListType:
		return "L(" + e.Show(v.ElementType) + ")"
	case *ddptypes.StructType:
		return e.keyOf(t)
	case *ddptypes.TypeAlias:
		return e.keyOf(t) + "(" + e.Show(v.Underlying) + ")"
	case *ddptypes.TypeDef:
		return e.keyOf(t) + "(" + e.Show(v.Underlying) + ")"
	case *ddptypes.InstantiatedGenericType:
		return e.keyOf(t) + "(" + e.Show(v.Actual) + ")"
	case ddptypes.GenericType:
		return "G" + v.Name[strings.IndexByte(v.Name, '#'):]
	}
	return fmt.Sprintf("?%T", t)
}
