(* C02 — every program the frontend accepts is compiled completely.
   Model: Lower/TcTable.v (the checker's operator tables), Lower/LowerTable.v (the code generator's switches, the
   instructions they emit with their operand types, llir's and LLVM's acceptance of each), Lower/Cells.v (the
   finite cell space: every operator of src/ast/operators.go x every tuple of the 19 operand type classes x
   every value context).  The domain of every theorem is the inductive type `cell` (resp. `ctx`, `ty`), which
   the enumerations all_cells / all_ctxs / all_tys cover completely (first theorem): statements decided by
   vm_compute on the enumeration are statements about all cells. *)
From Coq Require Import List Bool.
Import ListNotations.
From DDP Require Import Gen.OperatorEnum Lower.TcTable Lower.LowerTable Lower.Cells Lower.CellsProofs.

(* the bound: the enumerations the finite-domain proofs run over contain every cell, context and type class *)
Theorem C02_enumeration_complete :
  (forall c : cell, In c all_cells) /\ (forall x : ctx, In x all_ctxs) /\ (forall t : ty, In t all_tys).
Proof. exact (conj all_cells_complete (conj all_ctxs_complete all_tys_complete)). Qed.
Print Assumptions C02_enumeration_complete.

(* lowering_total — "every operator application that type-checks has a lowering whose IR is well typed and whose
   IR type is the one of the type the checker assigned" — is FALSE for the tables of the pinned tree *)
Theorem C02_lowering_total_refuted :
  exists c t, tc c = Some t /\
    ~ exists d v code, lower c = Ok d v code /\ ir_well_typed (Ok d v code) = true /\ d = ir t.
Proof. exact lowering_total_refuted. Qed.
Print Assumptions C02_lowering_total_refuted.

(* ... and it fails on exactly these 37 cells (9 families: Betrag / unary minus of a Byte; plus, minus, mal of Zahl
   and Byte; logisch und/oder/kontra with a Byte operand; shifts of mixed width) *)
Theorem C02_lowering_total_fails_exactly :
  forall c,
    ~ (forall t, tc c = Some t ->
         exists d v code, lower c = Ok d v code /\ ir_well_typed (Ok d v code) = true /\ d = ir t)
    <-> In c
      [ CUn UN_ABS (TB BByte); CUn UN_NEGATE (TB BByte);
        CBin BIN_PLUS (TB BZahl) (TB BByte); CBin BIN_PLUS (TB BByte) (TB BZahl);
        CBin BIN_PLUS (TB BByte) TAlias; CBin BIN_PLUS TAlias (TB BByte);
        CBin BIN_MINUS (TB BZahl) (TB BByte); CBin BIN_MINUS (TB BByte) (TB BZahl);
        CBin BIN_MINUS (TB BByte) TAlias; CBin BIN_MINUS TAlias (TB BByte);
        CBin BIN_MULT (TB BZahl) (TB BByte); CBin BIN_MULT (TB BByte) (TB BZahl);
        CBin BIN_MULT (TB BByte) TAlias; CBin BIN_MULT TAlias (TB BByte);
        CBin BIN_LOGIC_AND (TB BZahl) (TB BByte); CBin BIN_LOGIC_AND (TB BByte) (TB BZahl);
        CBin BIN_LOGIC_AND (TB BByte) (TB BByte); CBin BIN_LOGIC_AND (TB BByte) TAlias;
        CBin BIN_LOGIC_AND TAlias (TB BByte);
        CBin BIN_LOGIC_OR (TB BZahl) (TB BByte); CBin BIN_LOGIC_OR (TB BByte) (TB BZahl);
        CBin BIN_LOGIC_OR (TB BByte) (TB BByte); CBin BIN_LOGIC_OR (TB BByte) TAlias;
        CBin BIN_LOGIC_OR TAlias (TB BByte);
        CBin BIN_LOGIC_XOR (TB BZahl) (TB BByte); CBin BIN_LOGIC_XOR (TB BByte) (TB BZahl);
        CBin BIN_LOGIC_XOR (TB BByte) (TB BByte); CBin BIN_LOGIC_XOR (TB BByte) TAlias;
        CBin BIN_LOGIC_XOR TAlias (TB BByte);
        CBin BIN_LEFT_SHIFT (TB BZahl) (TB BByte); CBin BIN_LEFT_SHIFT (TB BByte) (TB BZahl);
        CBin BIN_LEFT_SHIFT (TB BByte) TAlias; CBin BIN_LEFT_SHIFT TAlias (TB BByte);
        CBin BIN_RIGHT_SHIFT (TB BZahl) (TB BByte); CBin BIN_RIGHT_SHIFT (TB BByte) (TB BZahl);
        CBin BIN_RIGHT_SHIFT (TB BByte) TAlias; CBin BIN_RIGHT_SHIFT TAlias (TB BByte) ].
Proof. exact lowering_total_fails_exactly. Qed.
Print Assumptions C02_lowering_total_fails_exactly.

(* what does hold: every other cell of the whole operator x type-class space *)
Theorem C02_lowering_total_partial :
  forall c t, ~ In c bad_cells_explicit -> tc c = Some t ->
    exists d v code, lower c = Ok d v code /\ ir_well_typed (Ok d v code) = true /\ d = ir t.
Proof. exact lowering_total_partial. Qed.
Print Assumptions C02_lowering_total_partial.

Example C02_lowering_total_partial_nonvacuous :
  ~ In (CBin BIN_PLUS (TB BByte) (TB BKomma)) bad_cells_explicit /\
  tc (CBin BIN_PLUS (TB BByte) (TB BKomma)) = Some (TB BKomma) /\
  lower (CBin BIN_PLUS (TB BByte) (TB BKomma)) = Ok (Sc F64) (Sc F64) [IConv UIToFP (Sc I8) (Sc F64); IFBin (Sc F64) (Sc F64)].
Proof.
  split; [ | split; reflexivity].
  intros H. vm_compute in H.
  repeat (destruct H as [H | H]; [discriminate H | ]). exact H.
Qed.

(* value contexts (initialiser, assignment, argument, return value, condition, list element): whenever the checker
   admits an expression of type t in context x, the code generator serves it for a consistently lowered operand —
   except the list literal whose element is itself a list *)
Theorem C02_context_consistent :
  forall x t, ctx_admits x t = true ->
    ~ In (x, t) [ (CElem, TL BZahl); (CElem, TL BKomma); (CElem, TL BByte); (CElem, TL BBool); (CElem, TL BChar);
                  (CElem, TL BText); (CElem, TL BStruct); (CElem, TL BAny); (CElem, TL BDef) ] ->
    exists d v code, lower_ctx x t (ir t) (ir t) = Ok d v code /\ code_verdict code = VOk.
Proof. exact context_consistent_code. Qed.
Print Assumptions C02_context_consistent.

Example C02_context_consistent_nonvacuous :
  ctx_admits (CInit (TB BByte)) (TB BZahl) = true /\
  lower_ctx (CInit (TB BByte)) (TB BZahl) (Sc I64) (Sc I64) =
    Ok (Sc I8) (Sc I8) [IConv Trunc (Sc I64) (Sc I8); IStore (Sc I8) (Sc I8)].
Proof. split; reflexivity. Qed.

Theorem C02_context_elem_refuted :
  exists t, ctx_admits CElem t = true /\ lower_ctx CElem t (ir t) (ir t) = Err.
Proof. exact context_elem_refuted. Qed.
Print Assumptions C02_context_elem_refuted.

(* end to end on the model: a cell that satisfies lowering_total, in a context the checker admits and the code
   generator can serve, is compiled (no internal error, IR accepted) *)
Theorem C02_good_cells_compile :
  forall c x t, tc c = Some t -> cell_ok c = true -> ctx_admits x t = true -> ctx_ok x t = true ->
    verdict_of c x = VOk.
Proof. exact good_cells_compile. Qed.
Print Assumptions C02_good_cells_compile.

Example C02_good_cells_compile_nonvacuous :
  let c := CTer TER_FALLS (TL BText) (TB BBool) (TL BText) in
  tc c = Some (TL BText) /\ cell_ok c = true /\ ctx_admits (CReturn (TL BText)) (TL BText) = true /\
  ctx_ok (CReturn (TL BText)) (TL BText) = true /\ verdict_of c (CReturn (TL BText)) = VOk.
Proof. repeat split; reflexivity. Qed.

(* cell_ok is exactly lowering_total at the cell, and the frontend verdict of the model is exactly the checker table *)
Theorem C02_cell_ok_spec :
  forall c, cell_ok c = true <->
    (forall t, tc c = Some t ->
       exists d v code, lower c = Ok d v code /\ ir_well_typed (Ok d v code) = true /\ d = ir t).
Proof. exact cell_ok_spec. Qed.
Print Assumptions C02_cell_ok_spec.

Theorem C02_verdict_reject_iff :
  forall c x, verdict_of c x = VReject <-> (tc c = None \/ exists t, tc c = Some t /\ ctx_admits x t = false).
Proof. exact verdict_reject_iff. Qed.
Print Assumptions C02_verdict_reject_iff.
