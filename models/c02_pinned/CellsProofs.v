(* C02 — proofs over the finite cell space: completeness of the enumerations (so that a `forallb` decided by
   vm_compute is a statement about ALL cells), the refutation of lowering_total on the mirrored tables with the
   exact list of failing cells, the partial theorem for every other cell, and the consistency of the value
   contexts. *)
From Coq Require Import List Bool.
Import ListNotations.
From DDP Require Import Gen.OperatorEnum Lower.TcTable Lower.LowerTable Lower.Cells.

(* ---- the enumerations are complete -------------------------------------------------------- *)
Ltac in_enum := cbv; repeat (first [left; reflexivity | right]).

Lemma all_unops_complete : forall op : unop, In op all_unops.
Proof. destruct op; in_enum. Qed.
Lemma all_binops_complete : forall op : binop, In op all_binops.
Proof. destruct op; in_enum. Qed.
Lemma all_terops_complete : forall op : terop, In op all_terops.
Proof. destruct op; in_enum. Qed.
Lemma all_castops_complete : forall op : castop, In op all_castops.
Proof. destruct op; in_enum. Qed.
Lemma all_bases_complete : forall b : base, In b all_bases.
Proof. destruct b; in_enum. Qed.
Lemma all_fields_complete : forall f : field, In f all_fields.
Proof. destruct f; in_enum. Qed.

Lemma all_tys_complete : forall t : ty, In t all_tys.
Proof.
  intros t. unfold all_tys. destruct t as [b | b | ].
  - apply in_or_app. left. apply in_map. apply all_bases_complete.
  - apply in_or_app. right. apply in_or_app. left. apply in_map. apply all_bases_complete.
  - apply in_or_app. right. apply in_or_app. right. left. reflexivity.
Qed.

Lemma all_cells_complete : forall c : cell, In c all_cells.
Proof.
  intros c. unfold all_cells. destruct c as [op a | op a b | f a | op a b c | op a t].
  - apply in_or_app. left.
    apply in_flat_map. exists op. split; [apply all_unops_complete | apply in_map, all_tys_complete].
  - apply in_or_app. right. apply in_or_app. left.
    apply in_flat_map. exists op. split; [apply all_binops_complete | ].
    apply in_flat_map. exists a. split; [apply all_tys_complete | apply in_map, all_tys_complete].
  - apply in_or_app. right. apply in_or_app. right. apply in_or_app. left.
    apply in_flat_map. exists f. split; [apply all_fields_complete | apply in_map, all_tys_complete].
  - apply in_or_app. right. apply in_or_app. right. apply in_or_app. right. apply in_or_app. left.
    apply in_flat_map. exists op. split; [apply all_terops_complete | ].
    apply in_flat_map. exists a. split; [apply all_tys_complete | ].
    apply in_flat_map. exists b. split; [apply all_tys_complete | apply in_map, all_tys_complete].
  - apply in_or_app. right. apply in_or_app. right. apply in_or_app. right. apply in_or_app. right.
    apply in_flat_map. exists op. split; [apply all_castops_complete | ].
    apply in_flat_map. exists a. split; [apply all_tys_complete | apply in_map, all_tys_complete].
Qed.

Lemma all_ctxs_complete : forall x : ctx, In x all_ctxs.
Proof.
  intros x. unfold all_ctxs. cbn [app].
  destruct x as [ | d | d | d | d | | ].
  - left. reflexivity.
  - right. right. right. apply in_or_app. left. apply in_map, all_tys_complete.
  - right. right. right. apply in_or_app. right. apply in_or_app. left. apply in_map, all_tys_complete.
  - right. right. right. apply in_or_app. right. apply in_or_app. right. apply in_or_app. left.
    apply in_map, all_tys_complete.
  - right. right. right. apply in_or_app. right. apply in_or_app. right. apply in_or_app. right.
    apply in_map, all_tys_complete.
  - right. left. reflexivity.
  - right. right. left. reflexivity.
Qed.

(* lifting: a boolean predicate decided on the enumeration holds for every cell *)
Lemma forall_cells (p : cell -> bool) : forallb p all_cells = true -> forall c, p c = true.
Proof. intros H c. exact (proj1 (forallb_forall p all_cells) H c (all_cells_complete c)). Qed.

(* ---- irty_eqb decides equality ------------------------------------------------------------- *)
Lemma irty_eqb_eq : forall a b, irty_eqb a b = true <-> a = b.
Proof.
  intros [x | x] [y | y]; destruct x, y; cbn; split; intro H; try reflexivity; try discriminate H.
Qed.

(* ---- cell_ok is the statement of lowering_total for one cell ------------------------------ *)
Definition lowering_total_at (c : cell) : Prop :=
  forall t, tc c = Some t ->
    exists d v code, lower c = Ok d v code /\ ir_well_typed (Ok d v code) = true /\ d = ir t.

Lemma cell_ok_spec : forall c, cell_ok c = true <-> lowering_total_at c.
Proof.
  intros c. unfold cell_ok, lowering_total_at. split.
  - intros H t Ht. rewrite Ht in H. destruct (lower c) as [ | d v code] eqn:El; [discriminate H | ].
    apply andb_true_iff in H. destruct H as [Hw He].
    exists d, v, code. split; [reflexivity | ]. split; [exact Hw | ]. apply irty_eqb_eq. exact He.
  - intros H. destruct (tc c) as [t | ] eqn:Et; [ | reflexivity].
    destruct (H t eq_refl) as (d & v & code & El & Hw & He).
    rewrite El. apply andb_true_iff. split; [exact Hw | ]. apply irty_eqb_eq. exact He.
Qed.

(* ---- the failing cells, exactly ------------------------------------------------------------- *)
Lemma bad_cells_spec : forall c, In c bad_cells <-> cell_ok c = false.
Proof.
  intros c. unfold bad_cells. rewrite filter_In. split.
  - intros [_ H]. apply negb_true_iff in H. exact H.
  - intros H. split; [apply all_cells_complete | ]. apply negb_true_iff. exact H.
Qed.

Definition bad_cells_explicit : list cell :=
  [ CUn UN_ABS (TB BByte); CUn UN_NEGATE (TB BByte);
    CBin BIN_PLUS (TB BZahl) (TB BByte); CBin BIN_PLUS (TB BByte) (TB BZahl);
    CBin BIN_PLUS (TB BByte) TAlias; CBin BIN_PLUS TAlias (TB BByte);
    CBin BIN_MINUS (TB BZahl) (TB BByte); CBin BIN_MINUS (TB BByte) (TB BZahl);
    CBin BIN_MINUS (TB BByte) TAlias; CBin BIN_MINUS TAlias (TB BByte);
    CBin BIN_MULT (TB BZahl) (TB BByte); CBin BIN_MULT (TB BByte) (TB BZahl);
    CBin BIN_MULT (TB BByte) TAlias; CBin BIN_MULT TAlias (TB BByte);
    CBin BIN_LOGIC_AND (TB BZahl) (TB BByte); CBin BIN_LOGIC_AND (TB BByte) (TB BZahl);
    CBin BIN_LOGIC_AND (TB BByte) (TB BByte); CBin BIN_LOGIC_AND (TB BByte) TAlias;
    CBin BIN_LOGIC_AND TAlias (TB BByte);
    CBin BIN_LOGIC_OR (TB BZahl) (TB BByte); CBin BIN_LOGIC_OR (TB BByte) (TB BZahl);
    CBin BIN_LOGIC_OR (TB BByte) (TB BByte); CBin BIN_LOGIC_OR (TB BByte) TAlias;
    CBin BIN_LOGIC_OR TAlias (TB BByte);
    CBin BIN_LOGIC_XOR (TB BZahl) (TB BByte); CBin BIN_LOGIC_XOR (TB BByte) (TB BZahl);
    CBin BIN_LOGIC_XOR (TB BByte) (TB BByte); CBin BIN_LOGIC_XOR (TB BByte) TAlias;
    CBin BIN_LOGIC_XOR TAlias (TB BByte);
    CBin BIN_LEFT_SHIFT (TB BZahl) (TB BByte); CBin BIN_LEFT_SHIFT (TB BByte) (TB BZahl);
    CBin BIN_LEFT_SHIFT (TB BByte) TAlias; CBin BIN_LEFT_SHIFT TAlias (TB BByte);
    CBin BIN_RIGHT_SHIFT (TB BZahl) (TB BByte); CBin BIN_RIGHT_SHIFT (TB BByte) (TB BZahl);
    CBin BIN_RIGHT_SHIFT (TB BByte) TAlias; CBin BIN_RIGHT_SHIFT TAlias (TB BByte) ].

Lemma bad_cells_computed : bad_cells = bad_cells_explicit.
Proof. vm_compute. reflexivity. Qed.

Lemma lowering_total_fails_exactly :
  forall c, ~ lowering_total_at c <-> In c bad_cells_explicit.
Proof.
  intros c. rewrite <- bad_cells_computed, bad_cells_spec. split.
  - intros H. destruct (cell_ok c) eqn:E; [ | reflexivity]. exfalso. apply H. apply cell_ok_spec. exact E.
  - intros H Hl. apply cell_ok_spec in Hl. rewrite Hl in H. discriminate H.
Qed.

Lemma lowering_total_refuted :
  exists c t, tc c = Some t /\
    ~ exists d v code, lower c = Ok d v code /\ ir_well_typed (Ok d v code) = true /\ d = ir t.
Proof.
  exists (CUn UN_NEGATE (TB BByte)), (TB BZahl). split; [reflexivity | ].
  intros (d & v & code & El & _). vm_compute in El. discriminate El.
Qed.

Lemma lowering_total_partial :
  forall c t, ~ In c bad_cells_explicit -> tc c = Some t ->
    exists d v code, lower c = Ok d v code /\ ir_well_typed (Ok d v code) = true /\ d = ir t.
Proof.
  intros c t Hn Ht.
  assert (Hok : cell_ok c = true).
  { destruct (cell_ok c) eqn:E; [reflexivity | ]. exfalso. apply Hn.
    rewrite <- bad_cells_computed. apply bad_cells_spec. exact E. }
  exact (proj1 (cell_ok_spec c) Hok t Ht).
Qed.

(* ---- value contexts --------------------------------------------------------------------------- *)
Definition bad_ctxs_explicit : list (ctx * ty) :=
  [ (CElem, TL BZahl); (CElem, TL BKomma); (CElem, TL BByte); (CElem, TL BBool); (CElem, TL BChar);
    (CElem, TL BText); (CElem, TL BStruct); (CElem, TL BAny); (CElem, TL BDef) ].

Lemma bad_ctxs_computed : bad_ctxs = bad_ctxs_explicit.
Proof. vm_compute. reflexivity. Qed.

Lemma all_ctx_pairs_complete :
  forall x t, In (x, t) (flat_map (fun x => map (pair x) all_tys) all_ctxs).
Proof.
  intros x t. apply in_flat_map. exists x. split; [apply all_ctxs_complete | apply in_map, all_tys_complete].
Qed.

(* every context the checker admits for a type is served by the code generator when the operand was lowered
   consistently — except a list literal whose element is itself a list *)
Lemma context_consistent :
  forall x t, ctx_admits x t = true -> ~ In (x, t) bad_ctxs_explicit -> ctx_ok x t = true.
Proof.
  intros x t Ha Hn. destruct (ctx_ok x t) eqn:E; [reflexivity | ]. exfalso. apply Hn.
  rewrite <- bad_ctxs_computed. unfold bad_ctxs. apply filter_In. split; [apply all_ctx_pairs_complete | ].
  cbn [fst snd]. rewrite Ha, E. reflexivity.
Qed.

Lemma context_consistent_code :
  forall x t, ctx_admits x t = true -> ~ In (x, t) bad_ctxs_explicit ->
    exists d v code, lower_ctx x t (ir t) (ir t) = Ok d v code /\ code_verdict code = VOk.
Proof.
  intros x t Ha Hn. pose proof (context_consistent x t Ha Hn) as H. unfold ctx_ok in H.
  destruct (lower_ctx x t (ir t) (ir t)) as [ | d v code]; [discriminate H | ].
  exists d, v, code. split; [reflexivity | ]. destruct (code_verdict code); try discriminate H. reflexivity.
Qed.

Lemma context_elem_refuted :
  exists t, ctx_admits CElem t = true /\ lower_ctx CElem t (ir t) (ir t) = Err.
Proof. exists (TL BZahl). split; reflexivity. Qed.

(* ---- end to end: good cell + good context = kddp succeeds ------------------------------------ *)
Definition e2e_ok (c : cell) : bool :=
  match tc c with
  | None => true
  | Some t =>
      negb (cell_ok c) ||
      forallb (fun x => negb (ctx_admits x t) || negb (ctx_ok x t) ||
                        match verdict_of c x with VOk => true | _ => false end) all_ctxs
  end.

Lemma e2e_all : forallb e2e_ok all_cells = true.
Proof. vm_compute. reflexivity. Qed.

Lemma good_cells_compile :
  forall c x t, tc c = Some t -> cell_ok c = true -> ctx_admits x t = true -> ctx_ok x t = true ->
    verdict_of c x = VOk.
Proof.
  intros c x t Ht Hc Ha Hx.
  pose proof (forall_cells e2e_ok e2e_all c) as H. unfold e2e_ok in H. rewrite Ht, Hc in H. cbn [negb orb] in H.
  pose proof (proj1 (forallb_forall _ _) H x (all_ctxs_complete x)) as Hx'. cbn beta in Hx'.
  rewrite Ha, Hx in Hx'. cbn [negb orb] in Hx'.
  destruct (verdict_of c x); try discriminate Hx'. reflexivity.
Qed.

(* a cell the frontend admits never yields a frontend rejection in an admitted context, and a rejected cell is
   never compiled: the verdict function is faithful to the checker table *)
Lemma verdict_reject_iff :
  forall c x, verdict_of c x = VReject <-> (tc c = None \/ exists t, tc c = Some t /\ ctx_admits x t = false).
Proof.
  intros c x. unfold verdict_of. destruct (tc c) as [t | ] eqn:Et.
  - destruct (ctx_admits x t) eqn:Ea; cbn [negb].
    + split.
      * intros H. exfalso. destruct (lower c) as [ | d v code]; [discriminate H | ].
        destruct (lower_ctx x t d v) as [ | d' v' code']; [discriminate H | ].
        unfold code_verdict in H. destruct (any_judged Panic (code ++ code')); [discriminate H | ].
        destruct (any_judged Ill (code ++ code')); discriminate H.
      * intros [H | (t' & Ht' & Ha')]; [discriminate H | ]. injection Ht' as <-. rewrite Ea in Ha'. discriminate Ha'.
    + split; [intros _; right; exists t; split; [reflexivity | exact Ea] | reflexivity].
  - split; [intros _; left; reflexivity | reflexivity].
Qed.
