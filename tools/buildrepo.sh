#!/bin/bash
# buildrepo.sh <repo> <outdir>  — build kddp, runtime, partial stdlib, shims, Go harnesses from <repo>'s
# current working tree into <outdir> without writing anything into <repo>.
set -euo pipefail
REPO=$(readlink -f "$1"); OUT="$2"; V=$(readlink -f "$(dirname "$0")/..")
mkdir -p "$OUT"/{bin,lib,obj/rt,obj/std,obj/rt_asan,obj/std_asan,log}
OUT=$(readlink -f "$OUT")
export GOFLAGS=-mod=mod GOPROXY=off GOTOOLCHAIN=auto
unset GOSUMDB || true
LLVM_CONFIG=llvm-config-14
build_kddp() {
  export CGO_CPPFLAGS="$($LLVM_CONFIG --cppflags)" CGO_CXXFLAGS=-std=c++14
  export CGO_LDFLAGS="$($LLVM_CONFIG --ldflags --libs --system-libs all)"
  (cd "$REPO/cmd/kddp" && go build -o "$OUT/bin/kddp" -tags "byollvm verif" \
     -ldflags "-s -w -X main.DDPVERSION=v1.0.0 -X main.LLVMVERSION=14 -X main.GCCVERSION=12 -X 'main.GCCVERSIONFULL=gcc'") \
     >"$OUT/log/kddp.log" 2>&1
}
build_c() { # flavour objdir extraflags
  local od="$1"; shift
  local fl="$*"
  local pids=()
  for f in "$REPO"/lib/runtime/source/DDP/*.c "$REPO"/lib/runtime/source/DDP/*/*.c; do
    o="$OUT/obj/rt$od/$(echo "${f#$REPO/lib/runtime/source/}" | tr '/' '_' | sed 's/\.c$/.o/')"
    gcc -c -Wall -Wextra -Wno-format -O2 -std=c11 -D_POSIX_C_SOURCE=200809L $fl -I"$REPO/lib/runtime/include/" -o "$o" "$f" 2>>"$OUT/log/rt$od.log" &
    pids+=($!)
  done
  for p in "${pids[@]}"; do wait $p; done
  rm -f "$OUT/lib/libddpruntime$od.a"; ar rcs "$OUT/lib/libddpruntime$od.a" "$OUT"/obj/rt$od/*.o
  gcc -c -O2 -std=c11 -D_POSIX_C_SOURCE=200809L $fl -I"$REPO/lib/runtime/include/" -o "$OUT/lib/main$od.o" "$REPO/lib/runtime/source/main.c" 2>>"$OUT/log/rt$od.log"
  # stdlib: every source that compiles without the external submodules
  for f in "$REPO"/lib/stdlib/source/DDP/*.c "$REPO"/lib/stdlib/source/DDP/*/*.c; do
    [ -f "$f" ] || continue
    case "$(basename "$f")" in regex.c|compression.c) continue;; esac
    o="$OUT/obj/std$od/$(echo "${f#$REPO/lib/stdlib/source/}" | tr '/' '_' | sed 's/\.c$/.o/')"
    ( gcc -c -O2 -std=c11 -D_POSIX_C_SOURCE=200809L -D_DEFAULT_SOURCE $fl -I"$REPO/lib/stdlib/include/" -I"$REPO/lib/runtime/include/" -o "$o" "$f" 2>>"$OUT/log/std$od.log" || echo "SKIP $f" >>"$OUT/log/std$od.skip" ) &
  done
  wait
  rm -f "$OUT/lib/libddpstdlib$od.a"; ar rcs "$OUT/lib/libddpstdlib$od.a" "$OUT"/obj/std$od/*.o
}
rm -f "$OUT/log/kddp.ok"
( build_kddp && echo ok > "$OUT/log/kddp.ok" ) &
build_c "" 
build_c _asan -fsanitize=address -fno-omit-frame-pointer -g
gcc -c -O1 -o "$OUT/lib/shim.o" "$V/harness/c/shim.c"
rm -rf "$OUT/Duden"; cp -r "$REPO/lib/stdlib/Duden" "$OUT/Duden"
wait; [ -f "$OUT/log/kddp.ok" ] || { echo "kddp build failed"; tail -30 "$OUT/log/kddp.log"; exit 2; }
DDPPATH="$OUT" "$OUT/bin/kddp" dump-list-defs -o "$OUT/lib/ddp_list_types_defs" --llvm-ir --object >"$OUT/log/listdefs.log" 2>&1 || { echo "dump-list-defs failed"; cat "$OUT/log/listdefs.log"; exit 2; }
echo ok > "$OUT/BUILD_OK"
