#!/bin/bash
# serialised full build of the Coq development + extracted drivers (safe to call concurrently)
exec flock /verif/coq/.make.lock make -k -C /verif setup "$@"
