#!/usr/bin/env python3
"""Rewrite DESIGN.md section 9.4 from tools/claims.json (same text as MANIFEST.json)."""
import json, re, os
root = os.path.dirname(os.path.dirname(os.path.abspath(__file__)))
claims = json.load(open(os.path.join(root, "tools/claims.json")))
p = os.path.join(root, "DESIGN.md")
s = open(p).read()
start = s.index("### 9.4 ")
end = s.index("### 9.5 ")
head = s[start:s.index("\n", start) + 1]
lines = [head, "\n"]
for pid in sorted(k for k in claims if re.fullmatch(r"C\d\d", k)):
    c = claims[pid]
    if not c.get("claimed"):
        continue
    lines.append(f"* **{pid}** ({c['level']}; {c['technique']}) — {c['text']} *{c.get('note','')}*\n")
lines.append("\n")
open(p, "w").write(s[:start] + "".join(lines) + s[end:])
print("section 9.4 rewritten")
