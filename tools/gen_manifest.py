#!/usr/bin/env python3
"""Writes MANIFEST.json from the table below (single source of truth for claimed checks)."""
import json, os
V = os.path.dirname(os.path.dirname(os.path.abspath(__file__)))
props = [json.loads(l) for l in open(os.path.join(V, "properties.jsonl"))]
CLAIMS = json.load(open(os.path.join(V, "tools", "claims.json")))
checks = []
na = []
for p in props:
    pid = p["id"]
    c = CLAIMS.get(pid)
    if c and c.get("claimed"):
        checks.append(dict(
            property_id=pid,
            quick_cmd="./check %s --tier quick" % pid,
            thorough_cmd="./check %s --tier thorough" % pid,
            evidence_file="/verif/evidence/%s.json" % pid,
            replay_cmd_template="./check %s --replay {path}" % pid,
            engine="coq-proof+correspondence",
            level_claimed=dict(category=c["level"], text=c["text"], design_ref=c.get("design_ref", "DESIGN.md section 5, " + pid)),
            level_note=c["note"],
            technique=c["technique"]))
    else:
        na.append(dict(property_id=pid, reason=(c or {}).get("reason", "not yet covered by the Coq development in this revision; see DESIGN.md")))
m = dict(
    version=1,
    setup_cmd="make -C /verif setup",
    hooks=dict(guard="verif", enable="go build -tags verif (checks build their Go harnesses and kddp with it)",
               baseline_off_cmd="cd /repo && GOFLAGS=-mod=mod GOPROXY=off go test -vet=off -count=1 -json ./src/ast/... ./src/ddptypes/... ./src/parser/... ./src/scanner/...",
               source_commits=CLAIMS["_hooks"], add_only=True),
    engines=[dict(name="coq-proof+correspondence", path="/verif/coq + /verif/checks + /verif/extract + /verif/harness",
                  serves_properties=[c["property_id"] for c in checks],
                  kind_free_text="Coq 8.16.1 models and theorems (coq/Props/Cxx.v), extracted OCaml model drivers, Go/C harnesses over /repo, Python check driver")],
    checks=checks,
    notes="Known findings: /verif/KNOWN_FINDINGS.jsonl. Design and trusted base: /verif/DESIGN.md.",
    not_applicable=na)
json.dump(m, open(os.path.join(V, "MANIFEST.json"), "w"), indent=1, ensure_ascii=False)
print("claimed:", [c["property_id"] for c in checks])
