#!/bin/bash
# run_all.sh <seed> [tier] : every claimed check once, sequentially; prints rc and wall time per check
seed=${1:-}; tier=${2:-quick}
cd /verif
for id in $(python3 -c "import json;print(' '.join(c['property_id'] for c in json.load(open('MANIFEST.json'))['checks']))"); do
  t0=$(date +%s); ${seed:+env VERIF_SEED=$seed} ./check $id --tier $tier > /tmp/runall_${id}_$seed.log 2>&1; rc=$?; t1=$(date +%s)
  echo "$id seed=$seed rc=$rc wall=$((t1-t0))s $(grep -c '^VIOLATION' /tmp/runall_${id}_$seed.log) violations, $(grep -c '^KNOWN-FINDING' /tmp/runall_${id}_$seed.log) known"
done
