#!/bin/bash
# try_seed.sh <ID> <patch.diff> : apply a seeded patch to a scratch copy of /repo, run the quick check against it, print the verdict.
set -u
ID="$1"; PATCH="$(readlink -f "$2")"; D=$(mktemp -d /tmp/tryseed_XXXXXX)
cp -r /repo/. "$D"/ && rm -rf "$D/.git"
( cd "$D" && git init -q . >/dev/null 2>&1 && git apply --whitespace=nowarn "$PATCH" ) || { echo "PATCH DOES NOT APPLY"; rm -rf "$D"; exit 3; }
cd /verif && find corpus -type f | sort > "$D.corpus_before"
VERIF_REPO="$D" timeout 3000 ./check "$ID" --tier quick > "$D.out" 2>&1; rc=$?
# failures of the patched tree must not stay in the regression corpus
find corpus -type f | sort | comm -13 "$D.corpus_before" - | while read f; do rm -f "$f"; done
grep -c "^VIOLATION" "$D.out" | sed "s/^/violations: /"; grep -A1 "^VIOLATION" "$D.out" | head -6 | cut -c1-400; echo "rc=$rc"
# restore generated tables possibly rewritten from the mutated tree
git -C /verif checkout -- coq/Gen 2>/dev/null
rm -rf "$D" "$D.out" "$D.corpus_before"
