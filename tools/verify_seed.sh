#!/bin/bash
# verify_seed.sh <seeded/dir> : confirm a seeded change independently in a scratch worktree of /repo HEAD:
#   the patch applies, the packages' unit tests still pass with it, and (for Go-test demos) the demo fails with / passes without.
set -u
S=$(readlink -f "$1"); W=$(mktemp -d /tmp/vseed_XXXXXX); rmdir "$W"
export GOFLAGS=-mod=mod GOPROXY=off GOTOOLCHAIN=auto
git -C /repo worktree add -q --detach "$W" HEAD || exit 3
cd "$W"
demo() { if [ -f "$S/demo_test.go" ]; then cp "$S/demo_test.go" src/parser/zz_seed_demo_test.go; go test -vet=off -count=1 -run 'TestC[0-9]+Demo' ./src/parser/ >/tmp/vseed_demo.log 2>&1; r=$?; rm -f src/parser/zz_seed_demo_test.go; return $r; fi; return 99; }
demo; echo "demo without change: rc=$? (0 = passes)"
git apply --whitespace=nowarn "$S/patch.diff" && echo "patch applies to HEAD $(git -C /repo rev-parse --short HEAD)" || echo "PATCH DOES NOT APPLY"
go build ./src/ast/ ./src/ddptypes/ ./src/parser/... ./src/scanner/ ./src/token/ && echo "builds with change"
go test -vet=off -count=1 ./src/ast/ ./src/ddptypes/ ./src/parser/... ./src/scanner/ ./src/token/ 2>&1 | grep -v "no test files" | sed 's/^/  unit tests with change: /'
demo; echo "demo with change: rc=$? (non-zero = fails)"
cd /; git -C /repo worktree remove --force "$W"
